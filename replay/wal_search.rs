// Native search / replay driver for C05 (never decides anything: it only looks for a concrete
// failing history on the REAL code after the verifier has refuted an obligation).
//
// Dropped into <scratch copy of /repo>/tests/ and run with `cargo test --offline --test verif_wal_search`.
// Env: VERIF_WAL_HISTORY="<region>:<op>,<op>,..."  replay exactly this history
//      (ops: a<len> append, c checkpoint, r reopen-from-header, s stats, p pending_records)
//      otherwise: bounded enumeration, VERIF_WAL_BUDGET_S seconds (default 50).
use std::fs::File;
use std::time::{Duration, Instant};

use memvid_core::{EmbeddedWal, Header};

const WAL_OFFSET: u64 = 4096;

fn header_for(size: u64) -> Header {
    Header {
        magic: *b"MV2\0",
        version: 0x0201,
        footer_offset: 0,
        wal_offset: WAL_OFFSET,
        wal_size: size,
        wal_checkpoint_pos: 0,
        wal_sequence: 0,
        toc_checksum: [0u8; 32],
    }
}

#[derive(Clone, Debug)]
enum Op {
    Append(usize),
    Checkpoint,
    Reopen,
    Stats,
    Pending,
}

fn fmt_hist(region: u64, ops: &[Op]) -> String {
    let mut s = format!("{region}:");
    for (i, op) in ops.iter().enumerate() {
        if i > 0 {
            s.push(',');
        }
        match op {
            Op::Append(n) => s.push_str(&format!("a{n}")),
            Op::Checkpoint => s.push('c'),
            Op::Reopen => s.push('r'),
            Op::Stats => s.push('s'),
            Op::Pending => s.push('p'),
        }
    }
    s
}

fn parse_hist(s: &str) -> (u64, Vec<Op>) {
    let (r, ops) = s.split_once(':').expect("region:ops");
    let region = r.parse().expect("region");
    let ops = ops
        .split(',')
        .filter(|t| !t.is_empty())
        .map(|t| match t.as_bytes()[0] {
            b'a' => Op::Append(t[1..].parse().expect("len")),
            b'c' => Op::Checkpoint,
            b'r' => Op::Reopen,
            b's' => Op::Stats,
            b'p' => Op::Pending,
            _ => panic!("bad op {t}"),
        })
        .collect();
    (region, ops)
}

/// Runs the history on the real EmbeddedWal next to a reference list; Err(description) on the
/// first disagreement with property C05.
fn run(region: u64, ops: &[Op]) -> Result<(), String> {
    let file: File = tempfile::tempfile().map_err(|e| e.to_string())?;
    file.set_len(WAL_OFFSET + region).map_err(|e| e.to_string())?;
    let mut header = header_for(region);
    let mut wal = EmbeddedWal::open(&file, &header).map_err(|e| format!("open: {e}"))?;
    // reference: records appended since the last checkpoint
    let mut pending: Vec<(u64, Vec<u8>)> = Vec::new();
    let mut seq: u64 = 0;
    let mut fill: u8 = 1;
    for (i, op) in ops.iter().enumerate() {
        match op {
            Op::Append(n) => {
                let payload = vec![fill; *n];
                fill = fill.wrapping_add(1).max(1);
                let pend_bytes: u64 = pending.iter().map(|(_, p)| 48 + p.len() as u64).sum();
                match wal.append_entry(&payload) {
                    Ok(s) => {
                        if s != seq + 1 {
                            return Err(format!("step {i}: append returned sequence {s}, expected {}", seq + 1));
                        }
                        if pend_bytes + 48 + *n as u64 > region {
                            return Err(format!("step {i}: append accepted although pending {pend_bytes}+{} exceeds region {region}", 48 + n));
                        }
                        seq = s;
                        pending.push((s, payload));
                    }
                    Err(e) => {
                        let msg = e.to_string();
                        if !(msg.contains("full") || msg.contains("too small")) {
                            return Err(format!("step {i}: append failed with unexpected error: {msg}"));
                        }
                        // rejected appends must leave everything as it was: checked by the scan below
                    }
                }
            }
            Op::Checkpoint => {
                wal.record_checkpoint(&mut header).map_err(|e| format!("step {i}: checkpoint: {e}"))?;
                pending.clear();
            }
            Op::Reopen => {
                drop(wal);
                wal = EmbeddedWal::open(&file, &header).map_err(|e| format!("step {i}: reopen: {e}"))?;
            }
            Op::Stats => {
                let st = wal.stats();
                let want: u64 = pending.iter().map(|(_, p)| 48 + p.len() as u64).sum();
                if st.pending_bytes != want {
                    return Err(format!("step {i}: stats.pending_bytes {} != {}", st.pending_bytes, want));
                }
                if st.sequence != seq {
                    return Err(format!("step {i}: stats.sequence {} != {}", st.sequence, seq));
                }
            }
            Op::Pending => {}
        }
        // observe after every step
        let got = wal.pending_records().map_err(|e| format!("step {i} ({op:?}): pending_records: {e}"))?;
        let got: Vec<(u64, Vec<u8>)> = got.into_iter().map(|r| (r.sequence, r.payload)).collect();
        if got != pending {
            return Err(format!(
                "step {i} ({op:?}): pending_records returned {:?}, expected {:?}",
                got.iter().map(|(s, p)| (*s, p.len())).collect::<Vec<_>>(),
                pending.iter().map(|(s, p)| (*s, p.len())).collect::<Vec<_>>()
            ));
        }
    }
    Ok(())
}

#[test]
fn verif_wal_search() {
    if let Ok(h) = std::env::var("VERIF_WAL_HISTORY") {
        let (region, ops) = parse_hist(&h);
        match run(region, &ops) {
            Ok(()) => println!("VERIF-REPLAY-PASS history={h}"),
            Err(e) => println!("VERIF-REPLAY-FAIL history={h} :: {e}"),
        }
        return;
    }
    let budget = std::env::var("VERIF_WAL_BUDGET_S").ok().and_then(|s| s.parse().ok()).unwrap_or(50u64);
    let deadline = Instant::now() + Duration::from_secs(budget);
    let regions = [96u64, 100, 144, 160, 200, 256];
    let mut tried = 0u64;
    for depth in 1..=5usize {
        for &region in &regions {
            // payload sizes chosen around the interesting edges of this region
            let r = region as usize;
            let mut sizes: Vec<usize> = vec![1, 8, r / 4, r / 2 - 48, r / 2 - 47, r - 96, r - 95, r - 49, r - 48, r - 47];
            sizes.retain(|&n| n >= 1 && n <= r);
            sizes.sort_unstable();
            sizes.dedup();
            let mut alphabet: Vec<Op> = sizes.iter().map(|&n| Op::Append(n)).collect();
            alphabet.push(Op::Checkpoint);
            alphabet.push(Op::Reopen);
            alphabet.push(Op::Stats);
            let k = alphabet.len();
            let total = k.pow(depth as u32);
            for code in 0..total {
                let mut c = code;
                let mut ops = Vec::with_capacity(depth);
                for _ in 0..depth {
                    ops.push(alphabet[c % k].clone());
                    c /= k;
                }
                tried += 1;
                if let Err(e) = run(region, &ops) {
                    println!("VERIF-REPLAY-FAIL history={} :: {e}", fmt_hist(region, &ops));
                    println!("VERIF-SEARCH tried={tried}");
                    return;
                }
                if Instant::now() > deadline {
                    println!("VERIF-SEARCH-NONE tried={tried} (budget exhausted at depth {depth})");
                    return;
                }
            }
        }
    }
    println!("VERIF-SEARCH-NONE tried={tried} (enumeration complete)");
}
