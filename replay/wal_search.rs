// Native search / replay driver for C05 (never decides anything: it only looks for a concrete
// failing history on the REAL code after the verifier has refuted an obligation).
//
// Dropped into <scratch copy of /repo>/tests/ and run with `cargo test --offline --test verif_wal_search`.
// Env: VERIF_WAL_HISTORY="<region>:<op>,<op>,..."  replay exactly this history
//      (ops: a<len> append, c checkpoint, r reopen-from-header, s stats, p pending_records)
//      otherwise: bounded enumeration, VERIF_WAL_BUDGET_S seconds (default 50).
use std::fs::File;
use std::time::{Duration, Instant};

use memvid_core::{EmbeddedWal, Header};

const WAL_OFFSET: u64 = 4096;

fn header_for(size: u64) -> Header {
    Header {
        magic: *b"MV2\0",
        version: 0x0201,
        footer_offset: 0,
        wal_offset: WAL_OFFSET,
        wal_size: size,
        wal_checkpoint_pos: 0,
        wal_sequence: 0,
        toc_checksum: [0u8; 32],
    }
}

#[derive(Clone, Debug)]
enum Op {
    Append(usize),
    Checkpoint,
    Reopen,
    Stats,
    Pending,
}

fn fmt_hist(region: u64, ops: &[Op]) -> String {
    let mut s = format!("{region}:");
    for (i, op) in ops.iter().enumerate() {
        if i > 0 {
            s.push(',');
        }
        match op {
            Op::Append(n) => s.push_str(&format!("a{n}")),
            Op::Checkpoint => s.push('c'),
            Op::Reopen => s.push('r'),
            Op::Stats => s.push('s'),
            Op::Pending => s.push('p'),
        }
    }
    s
}

fn parse_hist(s: &str) -> (u64, Vec<Op>) {
    let (r, ops) = s.split_once(':').expect("region:ops");
    let region = r.parse().expect("region");
    let ops = ops
        .split(',')
        .filter(|t| !t.is_empty())
        .map(|t| match t.as_bytes()[0] {
            b'a' => Op::Append(t[1..].parse().expect("len")),
            b'c' => Op::Checkpoint,
            b'r' => Op::Reopen,
            b's' => Op::Stats,
            b'p' => Op::Pending,
            _ => panic!("bad op {t}"),
        })
        .collect();
    (region, ops)
}

/// Runs the history on the real EmbeddedWal next to a reference list; Err(description) on the
/// first disagreement with property C05.
fn run(region: u64, ops: &[Op]) -> Result<(), String> {
    let file: File = tempfile::tempfile().map_err(|e| e.to_string())?;
    file.set_len(WAL_OFFSET + region).map_err(|e| e.to_string())?;
    let mut header = header_for(region);
    let mut wal = EmbeddedWal::open(&file, &header).map_err(|e| format!("open: {e}"))?;
    // reference: records appended since the last checkpoint
    let mut pending: Vec<(u64, Vec<u8>)> = Vec::new();
    let mut seq: u64 = 0;
    let mut fill: u8 = 1;
    for (i, op) in ops.iter().enumerate() {
        match op {
            Op::Append(n) => {
                let payload = vec![fill; *n];
                fill = fill.wrapping_add(1).max(1);
                let pend_bytes: u64 = pending.iter().map(|(_, p)| 48 + p.len() as u64).sum();
                match wal.append_entry(&payload) {
                    Ok(s) => {
                        if s != seq + 1 {
                            return Err(format!("step {i}: append returned sequence {s}, expected {}", seq + 1));
                        }
                        if pend_bytes + 48 + *n as u64 > region {
                            return Err(format!("step {i}: append accepted although pending {pend_bytes}+{} exceeds region {region}", 48 + n));
                        }
                        seq = s;
                        pending.push((s, payload));
                    }
                    Err(e) => {
                        let msg = e.to_string();
                        if !(msg.contains("full") || msg.contains("too small")) {
                            return Err(format!("step {i}: append failed with unexpected error: {msg}"));
                        }
                        // rejected appends must leave everything as it was: checked by the scan below
                    }
                }
            }
            Op::Checkpoint => {
                wal.record_checkpoint(&mut header).map_err(|e| format!("step {i}: checkpoint: {e}"))?;
                pending.clear();
            }
            Op::Reopen => {
                drop(wal);
                wal = EmbeddedWal::open(&file, &header).map_err(|e| format!("step {i}: reopen: {e}"))?;
            }
            Op::Stats => {
                let st = wal.stats();
                let want: u64 = pending.iter().map(|(_, p)| 48 + p.len() as u64).sum();
                if st.pending_bytes != want {
                    return Err(format!("step {i}: stats.pending_bytes {} != {}", st.pending_bytes, want));
                }
                if st.sequence != seq {
                    return Err(format!("step {i}: stats.sequence {} != {}", st.sequence, seq));
                }
            }
            Op::Pending => {}
        }
        // observe after every step
        let got = wal.pending_records().map_err(|e| format!("step {i} ({op:?}): pending_records: {e}"))?;
        let got: Vec<(u64, Vec<u8>)> = got.into_iter().map(|r| (r.sequence, r.payload)).collect();
        if got != pending {
            return Err(format!(
                "step {i} ({op:?}): pending_records returned {:?}, expected {:?}",
                got.iter().map(|(s, p)| (*s, p.len())).collect::<Vec<_>>(),
                pending.iter().map(|(s, p)| (*s, p.len())).collect::<Vec<_>>()
            ));
        }
    }
    Ok(())
}

/// sp::scan of DESIGN.md Appendix A, executable (real blake3)
fn spec_scan(r: &[u8]) -> Result<(Vec<(u64, Vec<u8>)>, usize), String> {
    let mut recs = Vec::new();
    let mut c = 0usize;
    loop {
        if c + 48 > r.len() {
            break;
        }
        let seq = u64::from_le_bytes(r[c..c + 8].try_into().unwrap());
        let len = u32::from_le_bytes(r[c + 8..c + 12].try_into().unwrap()) as usize;
        if seq == 0 && len == 0 {
            break;
        }
        if len == 0 || c + 48 + len > r.len() {
            return Err(format!("bad length at {c}"));
        }
        if blake3::hash(&r[c + 48..c + 48 + len]).as_bytes() != &r[c + 16..c + 48] {
            return Err(format!("bad checksum at {c}"));
        }
        recs.push((seq, r[c + 48..c + 48 + len].to_vec()));
        c += 48 + len;
    }
    Ok((recs, c))
}

/// A-CODEC(scan) on one region image: a read-only open + pending_records (checkpoint 0) must agree with
/// the spec scan - same accept/reject decision, same records in order, same sequence.
fn check_image(region: &[u8]) -> Result<(), String> {
    use std::io::{Seek, SeekFrom, Write};
    let mut file: File = tempfile::tempfile().map_err(|e| e.to_string())?;
    file.set_len(WAL_OFFSET + region.len() as u64).map_err(|e| e.to_string())?;
    file.seek(SeekFrom::Start(WAL_OFFSET)).map_err(|e| e.to_string())?;
    file.write_all(region).map_err(|e| e.to_string())?;
    let header = header_for(region.len() as u64);
    let spec = spec_scan(region);
    let got = EmbeddedWal::open_read_only(&file, &header).and_then(|mut w| {
        let st = w.stats();
        w.pending_records().map(|r| (r, st))
    });
    match (spec, got) {
        (Err(_), Err(_)) => Ok(()),
        (Err(why), Ok(_)) => Err(format!("scan accepted an image the spec scan rejects ({why})")),
        (Ok(_), Err(e)) => Err(format!("scan rejected a well-formed image: {e}")),
        (Ok((recs, _end)), Ok((got, st))) => {
            let want: Vec<(u64, Vec<u8>)> = recs.iter().filter(|(s, _)| *s > 0).cloned().collect();
            let got: Vec<(u64, Vec<u8>)> = got.into_iter().map(|r| (r.sequence, r.payload)).collect();
            if got != want {
                return Err(format!("scan returned {:?}, spec scan {:?}", got.iter().map(|(s, p)| (*s, p.len())).collect::<Vec<_>>(), want.iter().map(|(s, p)| (*s, p.len())).collect::<Vec<_>>()));
            }
            let want_seq = recs.last().map_or(0, |(s, _)| *s);
            if st.sequence != want_seq {
                return Err(format!("sequence after open {} != last scanned {}", st.sequence, want_seq));
            }
            let want_pb: u64 = want.iter().map(|(_, p)| 48 + p.len() as u64).sum();
            if st.pending_bytes != want_pb {
                return Err(format!("pending_bytes after open {} != {}", st.pending_bytes, want_pb));
            }
            Ok(())
        }
    }
}

fn build_image(region: usize, payloads: &[usize]) -> Vec<u8> {
    let mut img = vec![0u8; region];
    let mut c = 0usize;
    for (i, &n) in payloads.iter().enumerate() {
        if c + 48 + n > region {
            break;
        }
        let payload: Vec<u8> = (0..n).map(|k| (k as u8).wrapping_mul(31).wrapping_add(i as u8 + 1)).collect();
        img[c..c + 8].copy_from_slice(&(i as u64 + 1).to_le_bytes());
        img[c + 8..c + 12].copy_from_slice(&(n as u32).to_le_bytes());
        img[c + 16..c + 48].copy_from_slice(blake3::hash(&payload).as_bytes());
        img[c + 48..c + 48 + n].copy_from_slice(&payload);
        c += 48 + n;
    }
    img
}

fn hex(b: &[u8]) -> String {
    b.iter().map(|x| format!("{x:02x}")).collect()
}

/// phase 2: well-formed images with 0..2 records and every single-byte corruption of them (3 masks)
fn image_phase() -> Result<u64, String> {
    let mut tried = 0u64;
    for &region in &[40usize, 64, 100, 112, 160] {
        let layouts: Vec<Vec<usize>> = vec![vec![], vec![1], vec![3], vec![region.saturating_sub(48)], vec![3, 2], vec![1, 1, 1], vec![3, region.saturating_sub(99)]];
        for l in layouts {
            let l: Vec<usize> = l.into_iter().filter(|&n| n >= 1).collect();
            let base = build_image(region, &l);
            tried += 1;
            check_image(&base).map_err(|e| format!("image={} :: {e}", hex(&base)))?;
            for pos in 0..region {
                for mask in [0x01u8, 0x80, 0xFF] {
                    let mut img = base.clone();
                    img[pos] ^= mask;
                    tried += 1;
                    check_image(&img).map_err(|e| format!("image={} :: {e}", hex(&img)))?;
                }
            }
        }
    }
    Ok(tried)
}

#[test]
fn verif_wal_search() {
    if let Ok(h) = std::env::var("VERIF_WAL_HISTORY") {
        if let Some(hx) = h.strip_prefix("image=") {
            let img: Vec<u8> = (0..hx.len() / 2).map(|i| u8::from_str_radix(&hx[2 * i..2 * i + 2], 16).unwrap()).collect();
            match check_image(&img) {
                Ok(()) => println!("VERIF-REPLAY-PASS history={h}"),
                Err(e) => println!("VERIF-REPLAY-FAIL history={h} :: {e}"),
            }
            return;
        }
    }
    if let Ok(h) = std::env::var("VERIF_WAL_HISTORY") {
        let (region, ops) = parse_hist(&h);
        match run(region, &ops) {
            Ok(()) => println!("VERIF-REPLAY-PASS history={h}"),
            Err(e) => println!("VERIF-REPLAY-FAIL history={h} :: {e}"),
        }
        return;
    }
    let budget = std::env::var("VERIF_WAL_BUDGET_S").ok().and_then(|s| s.parse().ok()).unwrap_or(50u64);
    // VERIF_WAL_MAX_DEPTH: complete enumeration up to that depth (the bounded stand-in mode, no time limit)
    let max_depth: Option<usize> = std::env::var("VERIF_WAL_MAX_DEPTH").ok().and_then(|s| s.parse().ok());
    let deadline = Instant::now() + Duration::from_secs(if max_depth.is_some() { 86_400 } else { budget });
    let images = match image_phase() {
        Ok(n) => n,
        Err(e) => {
            println!("VERIF-REPLAY-FAIL history={e}");
            return;
        }
    };
    let regions = [96u64, 100, 144, 160, 200, 256];
    let mut tried = 0u64;
    for depth in 1..=max_depth.unwrap_or(5) {
        for &region in &regions {
            // payload sizes chosen around the interesting edges of this region
            let r = region as usize;
            let mut sizes: Vec<usize> = vec![1, 8, r / 4, r / 2 - 48, r / 2 - 47, r - 96, r - 95, r - 49, r - 48, r - 47];
            sizes.retain(|&n| n >= 1 && n <= r);
            sizes.sort_unstable();
            sizes.dedup();
            let mut alphabet: Vec<Op> = sizes.iter().map(|&n| Op::Append(n)).collect();
            alphabet.push(Op::Checkpoint);
            alphabet.push(Op::Reopen);
            alphabet.push(Op::Stats);
            let k = alphabet.len();
            let total = k.pow(depth as u32);
            for code in 0..total {
                let mut c = code;
                let mut ops = Vec::with_capacity(depth);
                for _ in 0..depth {
                    ops.push(alphabet[c % k].clone());
                    c /= k;
                }
                tried += 1;
                if let Err(e) = run(region, &ops) {
                    println!("VERIF-REPLAY-FAIL history={} :: {e}", fmt_hist(region, &ops));
                    println!("VERIF-SEARCH tried={tried}");
                    return;
                }
                if Instant::now() > deadline {
                    println!("VERIF-SEARCH-NONE tried={tried} (budget exhausted at depth {depth})");
                    return;
                }
            }
        }
    }
    println!("VERIF-SEARCH-NONE tried={tried} images={images} (enumeration complete to depth {})", max_depth.unwrap_or(5));
}
