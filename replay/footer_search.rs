// Native search / replay driver for C31 (never decides anything: it only looks for a concrete failing
// byte string on the REAL code after the verifier has refuted an obligation).
// Dropped into <scratch copy of /repo>/tests/ and run with `cargo test --offline --test verif_footer_search`.
// Case syntax (VERIF_FOOTER_CASE): the byte string as hex.
use memvid_core::footer::{find_last_valid_footer, CommitFooter, FOOTER_SIZE};

/// reference: the C31 statement, by exhaustive forward scan over every offset
fn naive(bytes: &[u8]) -> Option<(usize, usize)> {
    let mut best = None;
    if bytes.len() < FOOTER_SIZE {
        return None;
    }
    for pos in 0..=bytes.len() - FOOTER_SIZE {
        if let Some(f) = CommitFooter::decode(&bytes[pos..pos + FOOTER_SIZE]) {
            let Ok(len) = usize::try_from(f.toc_len) else { continue };
            if len == 0 || len > pos {
                continue;
            }
            if blake3::hash(&bytes[pos - len..pos]).as_bytes() == &f.toc_hash {
                best = Some((pos, pos - len));
            }
        }
    }
    best
}

fn check(bytes: &[u8]) -> Result<(), String> {
    let want = naive(bytes);
    let b = bytes.to_vec();
    let got = match std::panic::catch_unwind(move || find_last_valid_footer(&b).map(|s| (s.footer_offset, s.toc_offset, s.toc_bytes.to_vec(), s.footer.toc_len))) {
        Ok(g) => g,
        Err(_) => return Err("find_last_valid_footer panicked".into()),
    };
    match (want, got) {
        (None, None) => Ok(()),
        (Some((p, t)), Some((gp, gt, toc, len))) => {
            if gp != p {
                return Err(format!("returned footer at {gp}, the valid footer ending highest is at {p}"));
            }
            if gt != t || toc != bytes[t..p] || len as usize != p - t {
                return Err(format!("footer at {p}: toc_offset {gt} (want {t}), toc bytes differ from bytes[{t}..{p}] or toc_len {len}"));
            }
            Ok(())
        }
        (Some((p, _)), None) => Err(format!("returned nothing but a valid footer starts at {p}")),
        (None, Some((gp, ..))) => Err(format!("returned a footer at {gp} but no valid footer exists")),
    }
}

fn footer_for(toc: &[u8], claimed_len: u64, good_hash: bool, generation: u64) -> [u8; FOOTER_SIZE] {
    let mut h = *blake3::hash(toc).as_bytes();
    if !good_hash {
        h[3] ^= 0x40;
    }
    CommitFooter { toc_len: claimed_len, toc_hash: h, generation }.encode()
}

fn hex(b: &[u8]) -> String {
    b.iter().map(|x| format!("{x:02x}")).collect()
}

#[test]
fn verif_footer_search() {
    std::panic::set_hook(Box::new(|_| {}));
    if let Ok(c) = std::env::var("VERIF_FOOTER_CASE") {
        let bytes: Vec<u8> = (0..c.len() / 2).map(|i| u8::from_str_radix(&c[2 * i..2 * i + 2], 16).unwrap()).collect();
        match check(&bytes) {
            Ok(()) => println!("VERIF-REPLAY-PASS case={c}"),
            Err(e) => println!("VERIF-REPLAY-FAIL case={c} :: {e}"),
        }
        return;
    }
    let budget = std::env::var("VERIF_FOOTER_BUDGET_S").ok().and_then(|s| s.parse().ok()).unwrap_or(50u64);
    let deadline = std::time::Instant::now() + std::time::Duration::from_secs(budget);
    let mut state = 0x2545_F491_4F6C_DD1Du64;
    let mut next = move || {
        state ^= state << 13;
        state ^= state >> 7;
        state ^= state << 17;
        state
    };
    let mut tried = 0u64;
    // segments: junk (with stray 'M's), valid footer, bad-hash footer, oversized/zero/exact length, overlapping spans,
    // truncated tail footer
    while std::time::Instant::now() < deadline {
        let mut buf: Vec<u8> = Vec::new();
        let segs = 1 + next() % 5;
        for _ in 0..segs {
            let kind = next() % 9;
            let junk_len = (next() % 24) as usize;
            for _ in 0..junk_len {
                buf.push(if next() % 5 == 0 { b'M' } else { (next() % 251) as u8 });
            }
            let toc_len = 1 + (next() % 12) as usize;
            let start = buf.len();
            for _ in 0..toc_len {
                buf.push((next() % 256) as u8);
            }
            let toc = buf[start..].to_vec();
            match kind {
                0 | 1 => buf.extend_from_slice(&footer_for(&toc, toc_len as u64, true, next())),
                2 => buf.extend_from_slice(&footer_for(&toc, toc_len as u64, false, next())),
                3 => buf.extend_from_slice(&footer_for(&toc, 0, true, 1)),
                4 => {
                    // claims everything before it (exact fit) with the right hash
                    let all = buf.clone();
                    buf.extend_from_slice(&footer_for(&all, all.len() as u64, true, 2));
                }
                5 => {
                    // claims more than exists, hash of everything before it
                    let all = buf.clone();
                    buf.extend_from_slice(&footer_for(&all, all.len() as u64 + 1 + next() % 70, true, 3));
                }
                6 => {
                    // bad hash, span reaching back over earlier material
                    let span = (buf.len() as u64).min(toc_len as u64 + 56 + next() % 40);
                    buf.extend_from_slice(&footer_for(&toc, span.max(1), false, 4));
                }
                7 => {
                    let f = footer_for(&toc, toc_len as u64, true, 5);
                    buf.extend_from_slice(&f[..(next() % 56) as usize]); // truncated footer
                }
                _ => {}
            }
        }
        tried += 1;
        if let Err(e) = check(&buf) {
            println!("VERIF-REPLAY-FAIL case={} :: {e}", hex(&buf));
            return;
        }
        // and every truncation of the tail by < 60 bytes
        for cut in 1..buf.len().min(60) {
            tried += 1;
            if let Err(e) = check(&buf[..buf.len() - cut]) {
                println!("VERIF-REPLAY-FAIL case={} :: {e}", hex(&buf[..buf.len() - cut]));
                return;
            }
        }
    }
    println!("VERIF-SEARCH-NONE tried={tried}");
}
