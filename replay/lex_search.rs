// Native search / replay driver for C35, appended as `#[cfg(test)] mod verif_native` to src/lex.rs of a
// SCRATCH COPY of /repo (compute_snippet_slices is pub(crate)).  Never decides anything.
// Case syntax: <content as hex>|<s>-<e>,<s>-<e>,...|<window>|<max>
use super::*;

fn check(content: &str, occ: &[(usize, usize)], window: usize, max: usize) -> std::result::Result<(), String> {
    let c = content.to_string();
    let o = occ.to_vec();
    let res = std::panic::catch_unwind(move || compute_snippet_slices(&c, &o, window, max));
    let out = match res {
        Ok(v) => v,
        Err(_) => return Err("compute_snippet_slices panicked".to_string()),
    };
    if out.len() > max {
        return Err(format!("{} slices returned, maximum is {max}: {out:?}", out.len()));
    }
    for (i, &(s, e)) in out.iter().enumerate() {
        if !(s < e) {
            return Err(format!("slice {i} = ({s},{e}) is empty"));
        }
        if e > content.len() {
            return Err(format!("slice {i} = ({s},{e}) exceeds text length {}", content.len()));
        }
        if !content.is_char_boundary(s) || !content.is_char_boundary(e) {
            return Err(format!("slice {i} = ({s},{e}) not on char boundaries"));
        }
        if i > 0 && !(out[i - 1].1 <= s && out[i - 1].0 < s) {
            return Err(format!("slices {:?} and ({s},{e}) overlap or are not increasing", out[i - 1]));
        }
    }
    Ok(())
}

fn fmt_case(content: &str, occ: &[(usize, usize)], window: usize, max: usize) -> String {
    let hex: String = content.bytes().map(|b| format!("{b:02x}")).collect();
    let o: Vec<String> = occ.iter().map(|(s, e)| format!("{s}-{e}")).collect();
    format!("{hex}|{}|{window}|{max}", o.join(","))
}

fn parse_case(s: &str) -> (String, Vec<(usize, usize)>, usize, usize) {
    let parts: Vec<&str> = s.split('|').collect();
    let bytes: Vec<u8> = (0..parts[0].len() / 2).map(|i| u8::from_str_radix(&parts[0][2 * i..2 * i + 2], 16).unwrap()).collect();
    let occ = parts[1]
        .split(',')
        .filter(|t| !t.is_empty())
        .map(|t| {
            let (a, b) = t.split_once('-').unwrap();
            (a.parse().unwrap(), b.parse().unwrap())
        })
        .collect();
    (String::from_utf8(bytes).unwrap(), occ, parts[2].parse().unwrap(), parts[3].parse().unwrap())
}

#[test]
fn verif_lex_search() {
    std::panic::set_hook(Box::new(|_| {}));
    if let Ok(c) = std::env::var("VERIF_LEX_CASE") {
        let (content, occ, window, max) = parse_case(&c);
        match check(&content, &occ, window, max) {
            Ok(()) => println!("VERIF-REPLAY-PASS case={c}"),
            Err(e) => println!("VERIF-REPLAY-FAIL case={c} :: {e}"),
        }
        return;
    }
    let budget = std::env::var("VERIF_LEX_BUDGET_S").ok().and_then(|s| s.parse().ok()).unwrap_or(50u64);
    let deadline = std::time::Instant::now() + std::time::Duration::from_secs(budget);
    let contents = [
        "a", "ab", "a.", ". b", "é", "aé.", "€x", "😀", "a\nb", "Hi. Yo! Ok? z", "é.\u{a0}€ b",
        "one two three. four five six! seven eight nine? ten eleven twelve\nthirteen fourteen fifteen sixteen seventeen",
    ];
    let idx = |len: usize| -> Vec<usize> {
        let mut v = vec![0, 1, 2, 3, len / 2, len.saturating_sub(1), len, len + 1, len + 40, usize::MAX - 1, usize::MAX];
        v.sort_unstable();
        v.dedup();
        v
    };
    let windows = [0usize, 1, 2, 7, 40, 160, usize::MAX];
    let maxes = [0usize, 1, 2, 3];
    let mut tried = 0u64;
    for content in contents {
        let ix = idx(content.len());
        for &w in &windows {
            for &m in &maxes {
                tried += 1;
                if let Err(e) = check(content, &[], w, m) {
                    println!("VERIF-REPLAY-FAIL case={} :: {e}", fmt_case(content, &[], w, m));
                    return;
                }
                for &s in &ix {
                    for &e in &ix {
                        tried += 1;
                        if let Err(err) = check(content, &[(s, e)], w, m) {
                            println!("VERIF-REPLAY-FAIL case={} :: {err}", fmt_case(content, &[(s, e)], w, m));
                            return;
                        }
                    }
                }
                for &s in &ix {
                    for &s2 in &ix {
                        let occ = [(s, s.saturating_add(1)), (s2, s2.saturating_add(2))];
                        tried += 1;
                        if let Err(err) = check(content, &occ, w, m) {
                            println!("VERIF-REPLAY-FAIL case={} :: {err}", fmt_case(content, &occ, w, m));
                            return;
                        }
                    }
                }
                if std::time::Instant::now() > deadline {
                    println!("VERIF-SEARCH-NONE tried={tried} (budget exhausted)");
                    return;
                }
            }
        }
    }
    println!("VERIF-SEARCH-NONE tried={tried} (enumeration complete)");
}
