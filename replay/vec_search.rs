// Native search / replay driver for C13, appended as `#[cfg(test)] mod verif_native` to src/vec.rs of a
// SCRATCH COPY of /repo.  Never decides anything: it only tries to exhibit, on the real code, a concrete
// input violating the C13 postcondition after a Kani harness has been refuted.
// Case syntax: <k>|<query>|<id>:<x>,<id>:<x>,...      (1-dimensional embeddings, decimal floats)
use super::*;

fn check(k: usize, q: f32, docs: &[(u64, f32)]) -> std::result::Result<(), String> {
    let documents: Vec<VecDocument> = docs.iter().map(|(id, x)| VecDocument { frame_id: *id, embedding: vec![*x] }).collect();
    let index = VecIndex::Uncompressed { documents };
    let hits = match std::panic::catch_unwind(move || index.search(&[q], k)) {
        Ok(h) => h,
        Err(_) => return Err("VecIndex::search panicked".into()),
    };
    let m = docs.len();
    if hits.len() != k.min(m) {
        return Err(format!("{} hits for k={k}, m={m}", hits.len()));
    }
    let dist = |x: f32| (x - q).abs();
    let mut used = vec![false; m];
    for (i, h) in hits.iter().enumerate() {
        match docs.iter().position(|(id, _)| *id == h.frame_id) {
            Some(d) => {
                if used[d] {
                    return Err(format!("frame {} reported twice", h.frame_id));
                }
                used[d] = true;
                if (h.distance - dist(docs[d].1)).abs() > 1e-3 * (1.0 + dist(docs[d].1)) {
                    return Err(format!("hit {} carries distance {} but its document is at {}", h.frame_id, h.distance, dist(docs[d].1)));
                }
            }
            None => return Err(format!("hit names unknown frame {}", h.frame_id)),
        }
        if i > 0 && hits[i - 1].distance > h.distance {
            return Err(format!("distances decrease: {} then {}", hits[i - 1].distance, h.distance));
        }
    }
    if let Some(last) = hits.last() {
        for (d, (id, x)) in docs.iter().enumerate() {
            if !used[d] && dist(*x) < last.distance - 1e-3 * (1.0 + last.distance) {
                return Err(format!("omitted frame {id} at distance {} is closer than the last hit at {}", dist(*x), last.distance));
            }
        }
    }
    Ok(())
}

fn fmt_case(k: usize, q: f32, docs: &[(u64, f32)]) -> String {
    let d: Vec<String> = docs.iter().map(|(id, x)| format!("{id}:{x}")).collect();
    format!("{k}|{q}|{}", d.join(","))
}

fn parse_case(s: &str) -> (usize, f32, Vec<(u64, f32)>) {
    let p: Vec<&str> = s.split('|').collect();
    let docs = p[2]
        .split(',')
        .filter(|t| !t.is_empty())
        .map(|t| {
            let (a, b) = t.split_once(':').unwrap();
            (a.parse().unwrap(), b.parse().unwrap())
        })
        .collect();
    (p[0].parse().unwrap(), p[1].parse().unwrap(), docs)
}

#[test]
fn verif_vec_search() {
    std::panic::set_hook(Box::new(|_| {}));
    if let Ok(c) = std::env::var("VERIF_VEC_CASE") {
        let (k, q, docs) = parse_case(&c);
        match check(k, q, &docs) {
            Ok(()) => println!("VERIF-REPLAY-PASS case={c}"),
            Err(e) => println!("VERIF-REPLAY-FAIL case={c} :: {e}"),
        }
        return;
    }
    // exhaustive over small configurations: m <= 5 documents on a grid of positions, every k <= m + 1
    let grid = [0.0f32, 1.0, 1.0, 2.0, 3.5, -1.0, 7.0];
    let mut state = 0x9E37_79B9_7F4A_7C15u64;
    let mut next = move || {
        state ^= state << 13;
        state ^= state >> 7;
        state ^= state << 17;
        state
    };
    for m in 0..=5usize {
        for _ in 0..400 {
            let docs: Vec<(u64, f32)> = (0..m).map(|i| (10 + i as u64, grid[(next() % grid.len() as u64) as usize])).collect();
            for k in 0..=m + 1 {
                if let Err(e) = check(k, 0.5, &docs) {
                    println!("VERIF-REPLAY-FAIL case={} :: {e}", fmt_case(k, 0.5, &docs));
                    return;
                }
            }
        }
    }
    println!("VERIF-SEARCH-NONE");
}
