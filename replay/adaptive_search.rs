// Native search / replay driver for C37 (never decides anything).  Integration test over the public API.
// Case syntax (VERIF_ADAPTIVE_CASE): <strategy>:<p1>,<p2>,<p3>|<min_results>|<normalize 0/1>|<s0>,<s1>,...   (f32 bit patterns, hex)
use memvid_core::{find_adaptive_cutoff, AdaptiveConfig, CutoffStrategy};
use memvid_core::types::adaptive::normalize_scores;

fn f(bits: u32) -> f32 {
    f32::from_bits(bits)
}

fn strategy(kind: u32, p: [f32; 3]) -> CutoffStrategy {
    match kind {
        0 => CutoffStrategy::AbsoluteThreshold { min_score: p[0] },
        1 => CutoffStrategy::RelativeThreshold { min_ratio: p[0] },
        2 => CutoffStrategy::ScoreCliff { max_drop_ratio: p[0] },
        3 => CutoffStrategy::Elbow { sensitivity: p[0] },
        _ => CutoffStrategy::Combined { relative_threshold: p[0], max_drop_ratio: p[1], absolute_min: p[2] },
    }
}

fn check(kind: u32, p: [f32; 3], min_results: usize, normalize: bool, s: &[f32]) -> Result<(), String> {
    let cfg = AdaptiveConfig { enabled: true, max_results: 100, min_results, strategy: strategy(kind, p), normalize_scores: normalize };
    let sc = s.to_vec();
    let cfg2 = cfg.clone();
    let r = match std::panic::catch_unwind(move || find_adaptive_cutoff(&sc, &cfg2).0) {
        Ok(r) => r,
        Err(_) => return Err("find_adaptive_cutoff panicked".into()),
    };
    let n = s.len();
    if !(min_results.min(n) <= r && r <= n) {
        return Err(format!("cut-off {r} outside [min({min_results},{n}), {n}]"));
    }
    let used: Vec<f32> = if normalize { normalize_scores(s) } else { s.to_vec() };
    if normalize || true {
        let v = normalize_scores(s);
        if v.len() != n {
            return Err("normalize_scores changed the length".into());
        }
        let mut max_i = 0;
        for i in 0..n {
            if s[i] > s[max_i] {
                max_i = i;
            }
            if !(v[i] >= 0.0 && v[i] <= 1.0) {
                return Err(format!("normalized score {} = {} outside [0,1]", i, v[i]));
            }
        }
        if n > 0 && v[max_i] != 1.0 {
            return Err(format!("maximum maps to {} instead of 1", v[max_i]));
        }
    }
    if n > min_results && kind <= 1 {
        let t = if kind == 0 { p[0] } else { used[0] * p[0] };
        for i in min_results..r {
            if !(used[i] >= t) {
                return Err(format!("kept result {i} has score {} below the threshold {t}", used[i]));
            }
        }
        if r < n && !(used[r] < t) {
            return Err(format!("result {r} just after the cut-off has score {} not below the threshold {t}", used[r]));
        }
    }
    Ok(())
}

fn fmt_case(kind: u32, p: [f32; 3], m: usize, norm: bool, s: &[f32]) -> String {
    let sc: Vec<String> = s.iter().map(|x| format!("{:08x}", x.to_bits())).collect();
    format!("{kind}:{:08x},{:08x},{:08x}|{m}|{}|{}", p[0].to_bits(), p[1].to_bits(), p[2].to_bits(), u8::from(norm), sc.join(","))
}

fn parse_case(c: &str) -> (u32, [f32; 3], usize, bool, Vec<f32>) {
    let parts: Vec<&str> = c.split('|').collect();
    let (k, ps) = parts[0].split_once(':').unwrap();
    let pv: Vec<f32> = ps.split(',').map(|x| f(u32::from_str_radix(x, 16).unwrap())).collect();
    let s = parts[3].split(',').filter(|t| !t.is_empty()).map(|x| f(u32::from_str_radix(x, 16).unwrap())).collect();
    (k.parse().unwrap(), [pv[0], pv[1], pv[2]], parts[1].parse().unwrap(), parts[2] == "1", s)
}

#[test]
fn verif_adaptive_search() {
    std::panic::set_hook(Box::new(|_| {}));
    if let Ok(c) = std::env::var("VERIF_ADAPTIVE_CASE") {
        let (k, p, m, norm, s) = parse_case(&c);
        match check(k, p, m, norm, &s) {
            Ok(()) => println!("VERIF-REPLAY-PASS case={c}"),
            Err(e) => println!("VERIF-REPLAY-FAIL case={c} :: {e}"),
        }
        return;
    }
    let budget = std::env::var("VERIF_ADAPTIVE_BUDGET_S").ok().and_then(|s| s.parse().ok()).unwrap_or(50u64);
    let deadline = std::time::Instant::now() + std::time::Duration::from_secs(budget);
    let special = [0.0f32, -0.0, 1.0, -1.0, 0.5, 0.25, 0.9, 0.1, 3.0e38, -3.0e38, f32::MAX, f32::MIN, f32::MIN_POSITIVE, 1.0e-45, 0.3, 0.7, 2.0, 100.0, 16777217.0, 1.0e-7];
    let mut state = 0x9E37_79B9_7F4A_7C15u64;
    let mut next = move || {
        state ^= state << 13;
        state ^= state >> 7;
        state ^= state << 17;
        state
    };
    let mut tried = 0u64;
    while std::time::Instant::now() < deadline {
        let n = (next() % 7) as usize;
        let mut s: Vec<f32> = (0..n).map(|_| special[(next() % special.len() as u64) as usize]).collect();
        if next() % 2 == 0 {
            s.sort_by(|a, b| b.partial_cmp(a).unwrap());
        }
        let p = [special[(next() % special.len() as u64) as usize], special[(next() % special.len() as u64) as usize], special[(next() % special.len() as u64) as usize]];
        let kind = (next() % 5) as u32;
        let m = (next() % 8) as usize;
        let norm = next() % 2 == 0;
        tried += 1;
        if let Err(e) = check(kind, p, m, norm, &s) {
            println!("VERIF-REPLAY-FAIL case={} :: {e}", fmt_case(kind, p, m, norm, &s));
            return;
        }
    }
    println!("VERIF-SEARCH-NONE tried={tried}");
}
