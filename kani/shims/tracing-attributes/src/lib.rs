//! Identity `#[instrument]` for the no-op tracing shim (A-TRACE).
use proc_macro::TokenStream;

#[proc_macro_attribute]
pub fn instrument(_args: TokenStream, item: TokenStream) -> TokenStream {
    item
}
