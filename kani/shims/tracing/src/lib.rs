//! No-op `tracing` shim for Kani builds (A-TRACE).  Every event macro expands to `{}` without
//! evaluating its arguments (the real macros do not evaluate them either when no subscriber is
//! interested); `enabled!` is `false`; `#[instrument]` is the identity.
pub use tracing_attributes::instrument;

#[derive(Clone, Copy, Debug, PartialEq, Eq)]
pub struct Level(u8);
impl Level {
    pub const ERROR: Level = Level(1);
    pub const WARN: Level = Level(2);
    pub const INFO: Level = Level(3);
    pub const DEBUG: Level = Level(4);
    pub const TRACE: Level = Level(5);
}

#[macro_export]
macro_rules! trace { ($($t:tt)*) => {{}}; }
#[macro_export]
macro_rules! debug { ($($t:tt)*) => {{}}; }
#[macro_export]
macro_rules! info { ($($t:tt)*) => {{}}; }
#[macro_export]
macro_rules! warn { ($($t:tt)*) => {{}}; }
#[macro_export]
macro_rules! error { ($($t:tt)*) => {{}}; }
#[macro_export]
macro_rules! event { ($($t:tt)*) => {{}}; }
#[macro_export]
macro_rules! enabled { ($($t:tt)*) => { false }; }
