// Kani harnesses for src/types/sketch_track.rs (C39, C22).
use super::*;

fn any_filter_size() -> usize {
    let w: u8 = kani::any();
    match w % 3 {
        0 => TERM_FILTER_SIZE_SMALL,
        1 => TERM_FILTER_SIZE_MEDIUM,
        _ => TERM_FILTER_SIZE_LARGE,
    }
}

// ---- F1: no false negatives, lists of exactly N hashes (bounded by N), every 64-bit value, every filter size
macro_rules! filter_no_false_negative {
    ($name:ident, $n:expr) => {
        #[kani::proof]
        #[kani::unwind(9)]
        fn $name() {
            let hs: [u64; $n] = kani::any();
            let sz = any_filter_size();
            let f = build_term_filter(&hs, sz);
            assert!(f.len() == sz, "filter has the requested size");
            let i: usize = kani::any();
            kani::assume(i < $n);
            assert!(term_filter_maybe_contains(&f, hs[i]), "no false negative");
            kani::cover!(sz == TERM_FILTER_SIZE_LARGE, "large filter");
        }
    };
}
filter_no_false_negative!(filter_no_false_negative_n1, 1);
filter_no_false_negative!(filter_no_false_negative_n2, 2);
filter_no_false_negative!(filter_no_false_negative_n3, 3);
filter_no_false_negative!(filter_no_false_negative_n4, 4);
filter_no_false_negative!(filter_no_false_negative_n6, 6);

/// F2 (loop-free, complete): term_filter_maybe_contains is monotone in the filter - setting more
/// bits never turns a "maybe" into a "no" - for EVERY pair of filters of a supported size and hash.
#[kani::proof]
fn filter_contains_monotone_16() {
    let f: [u8; TERM_FILTER_SIZE_SMALL] = kani::any();
    let extra: [u8; TERM_FILTER_SIZE_SMALL] = kani::any();
    let mut g = f;
    let mut i = 0;
    while i < TERM_FILTER_SIZE_SMALL {
        g[i] |= extra[i];
        i += 1;
    }
    let h: u64 = kani::any();
    if term_filter_maybe_contains(&f, h) {
        kani::cover!(true, "some hash is contained");
        assert!(term_filter_maybe_contains(&g, h), "superset filter still contains");
    }
}

/// An empty filter contains nothing; a full filter contains everything (sanity of the bit test).
#[kani::proof]
fn filter_contains_extremes() {
    let h: u64 = kani::any();
    let sz = any_filter_size();
    let zero = [0u8; TERM_FILTER_SIZE_LARGE];
    let ones = [0xFFu8; TERM_FILTER_SIZE_LARGE];
    assert!(!term_filter_maybe_contains(&zero[..sz], h), "empty filter contains nothing");
    assert!(term_filter_maybe_contains(&ones[..sz], h), "full filter contains everything");
}

// ---- entry codecs: loop-free, full domain => complete
#[kani::proof]
fn sketch_small_roundtrip() {
    let e = SketchEntrySmall {
        simhash: kani::any(),
        term_filter: kani::any(),
        top_terms: kani::any(),
    };
    let b = e.to_bytes();
    let d = SketchEntrySmall::from_bytes(&b);
    assert!(d == e, "from_bytes(to_bytes(e)) == e");
}

#[kani::proof]
fn sketch_small_bytes_roundtrip() {
    let b: [u8; ENTRY_SIZE_SMALL] = kani::any();
    let e = SketchEntrySmall::from_bytes(&b);
    assert!(e.to_bytes() == b, "to_bytes(from_bytes(b)) == b (never panics, nothing invented)");
}

#[kani::proof]
fn sketch_medium_roundtrip() {
    let e = SketchEntryMedium {
        simhash: kani::any(),
        term_filter: kani::any(),
        top_terms: kani::any(),
        term_weight_sum: kani::any(),
        flags: kani::any(),
        length_hint: kani::any(),
        reserved: kani::any(),
    };
    let b = e.to_bytes();
    let d = SketchEntryMedium::from_bytes(&b);
    assert!(d.simhash == e.simhash && d.term_filter == e.term_filter && d.top_terms == e.top_terms);
    assert!(d.term_weight_sum == e.term_weight_sum && d.flags == e.flags && d.length_hint == e.length_hint);
}

#[kani::proof]
fn sketch_header_roundtrip() {
    let h = SketchTrackHeader {
        magic: SKETCH_TRACK_MAGIC,
        version: kani::any(),
        entry_size: kani::any(),
        entry_count: kani::any(),
        flags: kani::any(),
        reserved: kani::any(),
    };
    let b = h.to_bytes();
    match SketchTrackHeader::from_bytes(&b) {
        Ok(d) => {
            assert!(d.magic == h.magic && d.version == h.version && d.entry_size == h.entry_size);
            assert!(d.entry_count == h.entry_count && d.flags == h.flags && d.reserved == h.reserved);
        }
        Err(_) => assert!(false, "header with the right magic must decode"),
    }
}

#[kani::proof]
fn sketch_header_rejects_bad_magic() {
    let b: [u8; SketchTrackHeader::SIZE] = kani::any();
    match SketchTrackHeader::from_bytes(&b) {
        Ok(d) => {
            kani::cover!(true, "some image accepted");
            assert!(b[0..4] == SKETCH_TRACK_MAGIC, "accepted only with the magic");
            assert!(d.to_bytes() == b, "accepted image is the canonical encoding");
        }
        Err(_) => assert!(b[0..4] != SKETCH_TRACK_MAGIC, "rejected only for the magic"),
    }
}

// ---------------------------------------------------------------------------------------------
// Whole-track clause: write_sketch_track / read_sketch_track through std::io::Cursor (real std code).
// blake3::Hasher is stubbed (the checksum value plays no role here).
use std::io::Cursor;

pub(super) fn hasher_new_stub() -> Hasher {
    unsafe { core::mem::zeroed() }
}
pub(super) fn hasher_update_stub<'a>(h: &'a mut Hasher, _d: &[u8]) -> &'a mut Hasher {
    h
}
pub(super) fn hasher_finalize_stub(_h: &Hasher) -> blake3::Hash {
    blake3::Hash::from_bytes([0u8; 32])
}
pub(super) fn fmt_stub(_args: core::fmt::Arguments<'_>) -> String {
    String::new()
}

/// C22/C39: read_sketch_track on ANY 24-byte header image and ANY declared length returns (Ok or Err)
/// without panicking - in particular `entry_count * entry_size` must not overflow.
#[kani::proof]
#[kani::stub(alloc::fmt::format, fmt_stub)]
#[kani::unwind(34)]
fn sketch_track_read_arbitrary_header() {
    let img: [u8; SketchTrackHeader::SIZE] = kani::any();
    let length: u64 = kani::any();
    let mut cur = Cursor::new(img.to_vec());
    match read_sketch_track(&mut cur, 0, length) {
        Ok(t) => {
            kani::cover!(true, "an empty track is accepted");
            assert!(t.is_empty(), "no entry can be read from a header-only image");
            assert!(img[0..4] == SKETCH_TRACK_MAGIC, "accepted only with the magic");
        }
        Err(_) => {
            kani::cover!(true, "some image rejected");
        }
    }
}

fn any_entry_medium(frame_id: FrameId) -> SketchEntry {
    let tf: [u8; TERM_FILTER_SIZE_MEDIUM] = kani::any();
    let tt: [u32; TOP_TERMS_COUNT_MEDIUM] = kani::any();
    SketchEntry {
        frame_id,
        simhash: kani::any(),
        term_filter: tf.to_vec(),
        top_terms: tt.to_vec(),
        term_weight_sum: kani::any(),
        flags: SketchFlags::from_bits(kani::any()),
        length_hint: kani::any(),
    }
}

/// Unified entry <-> Medium bytes: every field survives (complete: fixed sizes, all values).
#[kani::proof]
#[kani::unwind(34)]
fn sketch_entry_medium_bytes_roundtrip() {
    let id: FrameId = kani::any();
    let e = any_entry_medium(id);
    let back = SketchEntry::from_medium_bytes(id, &e.to_medium_bytes());
    assert!(back == e, "from_medium_bytes(id, to_medium_bytes(e)) == e");
}

/// Unified entry <-> Small bytes: the fields the Small layout stores survive.
#[kani::proof]
#[kani::unwind(18)]
fn sketch_entry_small_bytes_roundtrip() {
    let id: FrameId = kani::any();
    let tf: [u8; TERM_FILTER_SIZE_SMALL] = kani::any();
    let tt: [u32; TOP_TERMS_COUNT_SMALL] = kani::any();
    let e = SketchEntry {
        frame_id: id,
        simhash: kani::any(),
        term_filter: tf.to_vec(),
        top_terms: tt.to_vec(),
        term_weight_sum: kani::any(),
        flags: SketchFlags::from_bits(kani::any()),
        length_hint: kani::any(),
    };
    let back = SketchEntry::from_small_bytes(id, &e.to_small_bytes());
    assert!(back.frame_id == id && back.simhash == e.simhash && back.term_filter == e.term_filter && back.top_terms == e.top_terms,
        "simhash, term filter and top terms survive the Small layout");
}

/// Track of N Medium entries with DENSE frame ids 0..N (the only shape the writer's callers produce when
/// every frame has a sketch): written and read back identical.
macro_rules! track_roundtrip_dense {
    ($name:ident, $n:expr) => {
        #[kani::proof]
        #[kani::stub(blake3::Hasher::new, hasher_new_stub)]
        #[kani::stub(blake3::Hasher::update, hasher_update_stub)]
        #[kani::stub(blake3::Hasher::finalize, hasher_finalize_stub)]
        #[kani::stub(alloc::fmt::format, fmt_stub)]
        #[kani::unwind(70)]
        fn $name() {
            let mut track = SketchTrack::new(SketchVariant::Medium);
            let mut i = 0u64;
            while i < $n {
                track.insert(any_entry_medium(i));
                i += 1;
            }
            let mut cur = Cursor::new(Vec::<u8>::new());
            let (offset, length, _sum) = match write_sketch_track(&mut cur, &track) {
                Ok(v) => v,
                Err(_) => {
                    assert!(false, "writing to memory cannot fail");
                    return;
                }
            };
            assert!(offset == 0 && length == (SketchTrackHeader::SIZE + $n * ENTRY_SIZE_MEDIUM) as u64, "length = header + n entries");
            match read_sketch_track(&mut cur, offset, length) {
                Ok(back) => {
                    assert!(back.len() == $n && back.variant == SketchVariant::Medium, "same size and variant");
                    i = 0;
                    while i < $n {
                        assert!(back.get(i) == track.get(i), "entry read back identical");
                        i += 1;
                    }
                }
                Err(_) => assert!(false, "a track written by write_sketch_track must read back"),
            }
        }
    };
}
track_roundtrip_dense!(sketch_track_roundtrip_dense_n1, 1);
track_roundtrip_dense!(sketch_track_roundtrip_dense_n2, 2);

/// Track with ONE entry under an ARBITRARY frame id: read back identical (the statement of C39).
#[kani::proof]
#[kani::stub(blake3::Hasher::new, hasher_new_stub)]
#[kani::stub(blake3::Hasher::update, hasher_update_stub)]
#[kani::stub(blake3::Hasher::finalize, hasher_finalize_stub)]
#[kani::stub(alloc::fmt::format, fmt_stub)]
#[kani::unwind(70)]
fn sketch_track_roundtrip_sparse_id() {
    let id: FrameId = kani::any();
    let mut track = SketchTrack::new(SketchVariant::Medium);
    track.insert(any_entry_medium(id));
    let mut cur = Cursor::new(Vec::<u8>::new());
    let (offset, length, _sum) = match write_sketch_track(&mut cur, &track) {
        Ok(v) => v,
        Err(_) => return,
    };
    match read_sketch_track(&mut cur, offset, length) {
        Ok(back) => {
            assert!(back.len() == 1, "one entry");
            assert!(back.get(id) == track.get(id), "the entry is found under the frame id it was stored with");
        }
        Err(_) => assert!(false, "a track written by write_sketch_track must read back"),
    }
}

// ---- long lists: N = 8 * size + 1 hashes (one more than the filter has bits).  All hashes but one are
// CONCRETE (a fixed arithmetic progression), the remaining one - first or last - is fully symbolic: the loop
// runs N times on mostly constant data, which CBMC handles in seconds, and the obligation "that hash is
// reported as possibly present" catches anything that depends on the POSITION of a token in a long list
// (truncation, saturation shortcuts, wrap-around) - what the short fully symbolic lists cannot see.
macro_rules! filter_long_list {
    ($name:ident, $size:expr, $n:expr, $pos:expr) => {
        #[kani::proof]
        #[kani::unwind(132)]
        fn $name() {
            let mut hs = [0u64; $n];
            let mut i = 0;
            while i < $n {
                hs[i] = (i as u64).wrapping_mul(0x9E37_79B9_7F4A_7C15).rotate_left(17);
                i += 1;
            }
            let h: u64 = kani::any();
            hs[$pos] = h;
            let f = build_term_filter(&hs, $size);
            assert!(f.len() == $size);
            assert!(term_filter_maybe_contains(&f, h), "no false negative at this position of a long list");
        }
    };
}
filter_long_list!(filter_long_list_last_16, 16, 129, 128);
filter_long_list!(filter_long_list_first_16, 16, 129, 0);

