// Kani harnesses for src/types/sketch_track.rs (C39, C22).
use super::*;

fn any_filter_size() -> usize {
    let w: u8 = kani::any();
    match w % 3 {
        0 => TERM_FILTER_SIZE_SMALL,
        1 => TERM_FILTER_SIZE_MEDIUM,
        _ => TERM_FILTER_SIZE_LARGE,
    }
}

// ---- F1: no false negatives, lists of exactly N hashes (bounded by N), every 64-bit value, every filter size
macro_rules! filter_no_false_negative {
    ($name:ident, $n:expr) => {
        #[kani::proof]
        #[kani::unwind(9)]
        fn $name() {
            let hs: [u64; $n] = kani::any();
            let sz = any_filter_size();
            let f = build_term_filter(&hs, sz);
            assert!(f.len() == sz, "filter has the requested size");
            let i: usize = kani::any();
            kani::assume(i < $n);
            assert!(term_filter_maybe_contains(&f, hs[i]), "no false negative");
            kani::cover!(sz == TERM_FILTER_SIZE_LARGE, "large filter");
        }
    };
}
filter_no_false_negative!(filter_no_false_negative_n1, 1);
filter_no_false_negative!(filter_no_false_negative_n2, 2);
filter_no_false_negative!(filter_no_false_negative_n3, 3);
filter_no_false_negative!(filter_no_false_negative_n4, 4);
filter_no_false_negative!(filter_no_false_negative_n6, 6);

/// F2 (loop-free, complete): term_filter_maybe_contains is monotone in the filter - setting more
/// bits never turns a "maybe" into a "no" - for EVERY pair of filters of a supported size and hash.
#[kani::proof]
fn filter_contains_monotone_16() {
    let f: [u8; TERM_FILTER_SIZE_SMALL] = kani::any();
    let extra: [u8; TERM_FILTER_SIZE_SMALL] = kani::any();
    let mut g = f;
    let mut i = 0;
    while i < TERM_FILTER_SIZE_SMALL {
        g[i] |= extra[i];
        i += 1;
    }
    let h: u64 = kani::any();
    if term_filter_maybe_contains(&f, h) {
        kani::cover!(true, "some hash is contained");
        assert!(term_filter_maybe_contains(&g, h), "superset filter still contains");
    }
}

/// An empty filter contains nothing; a full filter contains everything (sanity of the bit test).
#[kani::proof]
fn filter_contains_extremes() {
    let h: u64 = kani::any();
    let sz = any_filter_size();
    let zero = [0u8; TERM_FILTER_SIZE_LARGE];
    let ones = [0xFFu8; TERM_FILTER_SIZE_LARGE];
    assert!(!term_filter_maybe_contains(&zero[..sz], h), "empty filter contains nothing");
    assert!(term_filter_maybe_contains(&ones[..sz], h), "full filter contains everything");
}

// ---- entry codecs: loop-free, full domain => complete
#[kani::proof]
fn sketch_small_roundtrip() {
    let e = SketchEntrySmall {
        simhash: kani::any(),
        term_filter: kani::any(),
        top_terms: kani::any(),
    };
    let b = e.to_bytes();
    let d = SketchEntrySmall::from_bytes(&b);
    assert!(d == e, "from_bytes(to_bytes(e)) == e");
}

#[kani::proof]
fn sketch_small_bytes_roundtrip() {
    let b: [u8; ENTRY_SIZE_SMALL] = kani::any();
    let e = SketchEntrySmall::from_bytes(&b);
    assert!(e.to_bytes() == b, "to_bytes(from_bytes(b)) == b (never panics, nothing invented)");
}

#[kani::proof]
fn sketch_medium_roundtrip() {
    let e = SketchEntryMedium {
        simhash: kani::any(),
        term_filter: kani::any(),
        top_terms: kani::any(),
        term_weight_sum: kani::any(),
        flags: kani::any(),
        length_hint: kani::any(),
        reserved: kani::any(),
    };
    let b = e.to_bytes();
    let d = SketchEntryMedium::from_bytes(&b);
    assert!(d.simhash == e.simhash && d.term_filter == e.term_filter && d.top_terms == e.top_terms);
    assert!(d.term_weight_sum == e.term_weight_sum && d.flags == e.flags && d.length_hint == e.length_hint);
}

#[kani::proof]
fn sketch_header_roundtrip() {
    let h = SketchTrackHeader {
        magic: SKETCH_TRACK_MAGIC,
        version: kani::any(),
        entry_size: kani::any(),
        entry_count: kani::any(),
        flags: kani::any(),
        reserved: kani::any(),
    };
    let b = h.to_bytes();
    match SketchTrackHeader::from_bytes(&b) {
        Ok(d) => {
            assert!(d.magic == h.magic && d.version == h.version && d.entry_size == h.entry_size);
            assert!(d.entry_count == h.entry_count && d.flags == h.flags && d.reserved == h.reserved);
        }
        Err(_) => assert!(false, "header with the right magic must decode"),
    }
}

#[kani::proof]
fn sketch_header_rejects_bad_magic() {
    let b: [u8; SketchTrackHeader::SIZE] = kani::any();
    match SketchTrackHeader::from_bytes(&b) {
        Ok(d) => {
            kani::cover!(true, "some image accepted");
            assert!(b[0..4] == SKETCH_TRACK_MAGIC, "accepted only with the magic");
            assert!(d.to_bytes() == b, "accepted image is the canonical encoding");
        }
        Err(_) => assert!(b[0..4] != SKETCH_TRACK_MAGIC, "rejected only for the magic"),
    }
}
