// Kani harnesses and contract predicates for src/types/adaptive.rs (C37).
// Scores: every non-NaN finite f32, lengths enumerated (bounded, stated per harness name).
use super::*;

pub(super) fn fmt_stub(_args: core::fmt::Arguments<'_>) -> String {
    String::new()
}

pub(super) fn no_nan(s: &[f32]) -> bool {
    let mut i = 0;
    while i < s.len() {
        if s[i].is_nan() || s[i].is_infinite() {
            return false;
        }
        i += 1;
    }
    true
}

/// C37 bound clause: min(min_results, n) <= r <= n
pub(super) fn bounds_ok(n: usize, min_results: usize, r: usize) -> bool {
    let lo = if min_results < n { min_results } else { n };
    lo <= r && r <= n
}

/// C37 threshold clause: every result kept beyond the first min_results has a score >= t, and the
/// result just after the cut-off (if any) is below t.
pub(super) fn abs_ok(s: &[f32], t: f32, min_results: usize, r: usize) -> bool {
    if !bounds_ok(s.len(), min_results, r) {
        return false;
    }
    let mut i = min_results;
    while i < r {
        if !(s[i] >= t) {
            return false;
        }
        i += 1;
    }
    if r < s.len() && !(s[r] < t) {
        return false;
    }
    true
}

fn any_scores<const N: usize>() -> [f32; N] {
    let a: [f32; N] = kani::any();
    kani::assume(no_nan(&a));
    a
}

fn any_param() -> f32 {
    let t: f32 = kani::any();
    kani::assume(!t.is_nan() && !t.is_infinite());
    t
}

// ---------------------------------------------------------------- helper contracts
// Each helper's contract is the pair (precondition predicate, postcondition predicate) below; it is
// proved here on the real helper (assume pre, call, assert post) and REUSED by the dispatcher harnesses
// through stubs that assert the same pre and assume the same post.  Kani's own attribute form cannot be
// used for these: stub_verified needs an Arbitrary return type and `(usize, String)` is not; kani::stub
// on a function that carries contract attributes is rejected ("Failed to find contract closure"); and
// proof_for_contract on a String-returning function cost 240 s where this form costs 3 s.
macro_rules! abs_contract {
    ($name:ident, $n:expr) => {
        #[kani::proof]
        #[kani::unwind(7)]
        fn $name() {
            let s = any_scores::<$n>();
            let t = any_param();
            let m: usize = kani::any();
            let (r, _why) = find_absolute_cutoff(&s, t, m);
            assert!(abs_ok(&s, t, m, r), "contract of find_absolute_cutoff: bounds and threshold clauses");
            kani::cover!($n == 0 || r < $n, "cut inside the list (n >= 1)");
            kani::cover!(r == $n, "no cut");
        }
    };
}
abs_contract!(absolute_contract_n0, 0);
abs_contract!(absolute_contract_n1, 1);
abs_contract!(absolute_contract_n2, 2);
abs_contract!(absolute_contract_n3, 3);
abs_contract!(absolute_contract_n4, 4);
abs_contract!(absolute_contract_n5, 5);

macro_rules! cliff_contract {
    ($name:ident, $n:expr) => {
        #[kani::proof]
        #[kani::stub(alloc::fmt::format, fmt_stub)]
        #[kani::unwind(7)]
        fn $name() {
            let s = any_scores::<$n>();
            let d = any_param();
            let m: usize = kani::any();
            let (r, _why) = find_cliff_cutoff(&s, d, m);
            assert!(bounds_ok($n, m, r), "contract of find_cliff_cutoff: min(min_results,n) <= r <= n");
            kani::cover!($n < 2 || r < $n, "cliff found (n>=2)");
        }
    };
}
cliff_contract!(cliff_contract_n0, 0);
cliff_contract!(cliff_contract_n1, 1);
cliff_contract!(cliff_contract_n2, 2);
cliff_contract!(cliff_contract_n3, 3);
cliff_contract!(cliff_contract_n4, 4);

macro_rules! combined_contract {
    ($name:ident, $n:expr) => {
        #[kani::proof]
        #[kani::stub(alloc::fmt::format, fmt_stub)]
        #[kani::unwind(7)]
        fn $name() {
            let s = any_scores::<$n>();
            let top = any_param();
            let (rel, drop, absm) = (any_param(), any_param(), any_param());
            let m: usize = kani::any();
            let (r, _why) = find_combined_cutoff(&s, top, rel, drop, absm, m);
            assert!(bounds_ok($n, m, r), "contract of find_combined_cutoff: min(min_results,n) <= r <= n");
            kani::cover!($n < 1 || r < $n, "combined cut found (n>=1)");
        }
    };
}
combined_contract!(combined_contract_n0, 0);
combined_contract!(combined_contract_n1, 1);
combined_contract!(combined_contract_n2, 2);
combined_contract!(combined_contract_n3, 3);
combined_contract!(combined_contract_n4, 4);

macro_rules! elbow_contract {
    ($name:ident, $n:expr) => {
        #[kani::proof]
        #[kani::unwind(7)]
        fn $name() {
            let s = any_scores::<$n>();
            let sens = any_param();
            let m: usize = kani::any();
            kani::assume($n > m); // precondition: the only caller guarantees len > min_results
            let (r, _why) = find_elbow_cutoff(&s, sens, m);
            assert!(bounds_ok($n, m, r), "contract of find_elbow_cutoff: min(min_results,n) <= r <= n");
            kani::cover!(r <= $n, "returns");
        }
    };
}
elbow_contract!(elbow_contract_n1, 1);
elbow_contract!(elbow_contract_n2, 2);
elbow_contract!(elbow_contract_n3, 3);
elbow_contract!(elbow_contract_n4, 4);

// ---------------------------------------------------------------- dispatcher against the helper contracts
// Hand-written contract stubs (Kani's stub_verified needs an Arbitrary return type; `(usize, String)`
// is not): each returns ANY value satisfying exactly the predicate its proof_for_contract establishes.
static mut GHOST_LIST: [f32; 8] = [0.0; 8];
static mut GHOST_LEN: usize = 0;
static mut GHOST_T: f32 = 0.0;
static mut GHOST_ABS_CALLED: bool = false;

fn record(s: &[f32]) {
    unsafe {
        GHOST_LEN = s.len();
        let mut i = 0;
        while i < s.len() && i < 8 {
            GHOST_LIST[i] = s[i];
            i += 1;
        }
    }
}

pub(super) fn abs_stub(scores: &[f32], min_score: f32, min_results: usize) -> (usize, String) {
    // precondition of the contract, checked at the call site
    assert!(no_nan(scores) && !min_score.is_nan(), "find_absolute_cutoff called within its precondition");
    record(scores);
    unsafe {
        GHOST_T = min_score;
        GHOST_ABS_CALLED = true;
    }
    let r: usize = kani::any();
    kani::assume(abs_ok(scores, min_score, min_results, r));
    (r, "stub".to_string())
}

pub(super) fn cliff_stub(scores: &[f32], _max_drop_ratio: f32, min_results: usize) -> (usize, String) {
    assert!(no_nan(scores), "find_cliff_cutoff called within its precondition");
    record(scores);
    let r: usize = kani::any();
    kani::assume(bounds_ok(scores.len(), min_results, r));
    (r, "stub".to_string())
}

pub(super) fn elbow_stub(scores: &[f32], _sensitivity: f32, min_results: usize) -> (usize, String) {
    assert!(no_nan(scores) && scores.len() > min_results, "find_elbow_cutoff called within its precondition");
    record(scores);
    let r: usize = kani::any();
    kani::assume(bounds_ok(scores.len(), min_results, r));
    (r, "stub".to_string())
}

pub(super) fn combined_stub(
    scores: &[f32],
    _top: f32,
    _rel: f32,
    _drop: f32,
    _absm: f32,
    min_results: usize,
) -> (usize, String) {
    assert!(no_nan(scores), "find_combined_cutoff called within its precondition");
    record(scores);
    let r: usize = kani::any();
    kani::assume(bounds_ok(scores.len(), min_results, r));
    (r, "stub".to_string())
}

/// Assumed contract of normalize_scores (A-NORM, see not_covered): same length, finite non-NaN values.
pub(super) fn norm_stub(scores: &[f32]) -> Vec<f32> {
    let mut v = Vec::with_capacity(scores.len());
    let mut i = 0;
    while i < scores.len() {
        let x: f32 = kani::any();
        kani::assume(!x.is_nan() && !x.is_infinite());
        v.push(x);
        i += 1;
    }
    v
}

fn any_strategy(which: u8) -> CutoffStrategy {
    match which {
        0 => CutoffStrategy::AbsoluteThreshold { min_score: any_param() },
        1 => CutoffStrategy::RelativeThreshold { min_ratio: any_param() },
        2 => CutoffStrategy::ScoreCliff { max_drop_ratio: any_param() },
        3 => CutoffStrategy::Elbow { sensitivity: any_param() },
        5 => {
            // RelativeThreshold with the ratio drawn from a table of exactly representable values: the
            // float multiplication then has a constant operand and the instance answers in seconds (the
            // fully symbolic ratio is variant 1, thorough tier: 5-10 min of SAT time on the multiplier)
            let w: u8 = kani::any();
            let r = match w % 5 {
                0 => 0.5,
                1 => 0.25,
                2 => 1.0,
                3 => 0.0,
                _ => 0.75,
            };
            CutoffStrategy::RelativeThreshold { min_ratio: r }
        }
        _ => CutoffStrategy::Combined {
            relative_threshold: any_param(),
            max_drop_ratio: any_param(),
            absolute_min: any_param(),
        },
    }
}

macro_rules! dispatch {
    ($name:ident, $n:expr, $which:expr, $normalize:expr) => {
        #[kani::proof]
        #[kani::stub(find_absolute_cutoff, abs_stub)]
        #[kani::stub(find_cliff_cutoff, cliff_stub)]
        #[kani::stub(find_elbow_cutoff, elbow_stub)]
        #[kani::stub(find_combined_cutoff, combined_stub)]
        #[kani::stub(normalize_scores, norm_stub)]
        #[kani::unwind(10)]
        fn $name() {
            let s = any_scores::<$n>();
            let cfg = AdaptiveConfig {
                enabled: kani::any(),
                max_results: kani::any(),
                min_results: kani::any(),
                strategy: any_strategy($which),
                normalize_scores: $normalize,
            };
            unsafe {
                GHOST_ABS_CALLED = false;
            }
            let (r, _why) = find_adaptive_cutoff(&s, &cfg);
            assert!(bounds_ok($n, cfg.min_results, r), "cut-off within [min(min_results,n), n]");
            let abs_called = unsafe { GHOST_ABS_CALLED };
            if ($which <= 1 || $which == 5) && $n > cfg.min_results {
                assert!(abs_called, "threshold strategies go through find_absolute_cutoff");
                // the list the function used: the raw scores when normalisation is off
                let used: [f32; 8] = unsafe { GHOST_LIST };
                let used_len = unsafe { GHOST_LEN };
                assert!(used_len == $n, "strategy sees a list of the same length");
                if !$normalize {
                    let mut i = 0;
                    while i < $n {
                        assert!(used[i] == s[i], "raw scores are used when normalisation is off");
                        i += 1;
                    }
                }
                let t = unsafe { GHOST_T };
                match cfg.strategy {
                    CutoffStrategy::AbsoluteThreshold { min_score } => assert!(t == min_score, "absolute threshold is the configured one"),
                    CutoffStrategy::RelativeThreshold { min_ratio } => assert!(t == used[0] * min_ratio, "relative threshold is top score x ratio"),
                    _ => {}
                }
                assert!(abs_ok(&used[..$n], t, cfg.min_results, r), "threshold clause on the list used");
            }
            kani::cover!(r < $n, "cut inside");
        }
    };
}
dispatch!(dispatch_absolute_n3_raw, 3, 0, false);
dispatch!(dispatch_relative_n3_raw, 3, 1, false);
dispatch!(dispatch_cliff_n3_raw, 3, 2, false);
dispatch!(dispatch_elbow_n3_raw, 3, 3, false);
dispatch!(dispatch_combined_n3_raw, 3, 4, false);
dispatch!(dispatch_absolute_n3_norm, 3, 0, true);
dispatch!(dispatch_relative_n3_norm, 3, 1, true);
dispatch!(dispatch_combined_n3_norm, 3, 4, true);
dispatch!(dispatch_relative_table_n3_raw, 3, 5, false);
dispatch!(dispatch_relative_table_n3_norm, 3, 5, true);
dispatch!(dispatch_relative_table_n5_raw, 5, 5, false);
dispatch!(dispatch_absolute_n1_raw, 1, 0, false);
dispatch!(dispatch_relative_n2_raw, 2, 1, false);
dispatch!(dispatch_absolute_n5_raw, 5, 0, false);
dispatch!(dispatch_relative_n5_norm, 5, 1, true);
dispatch!(dispatch_elbow_n5_norm, 5, 3, true);
dispatch!(dispatch_cliff_n5_norm, 5, 2, true);
dispatch!(dispatch_combined_n5_raw, 5, 4, false);

#[kani::proof]
fn dispatch_empty() {
    let cfg = AdaptiveConfig {
        enabled: kani::any(),
        max_results: kani::any(),
        min_results: kani::any(),
        strategy: any_strategy(kani::any()),
        normalize_scores: kani::any(),
    };
    let (r, _why) = find_adaptive_cutoff(&[], &cfg);
    assert!(r == 0);
}

// ---------------------------------------------------------------- normalisation (monolithic, tiny n)
macro_rules! normalize_range {
    ($name:ident, $n:expr) => {
        #[kani::proof]
        #[kani::unwind(6)]
        fn $name() {
            let s = any_scores::<$n>();
            let v = normalize_scores(&s);
            assert!(v.len() == $n, "same length");
            let mut i = 0;
            let mut max_i = 0;
            while i < $n {
                if s[i] > s[max_i] {
                    max_i = i;
                }
                i += 1;
            }
            i = 0;
            while i < $n {
                assert!(v[i] >= 0.0 && v[i] <= 1.0, "normalized score in [0,1]");
                i += 1;
            }
            if $n > 0 {
                assert!(v[max_i] == 1.0, "maximum mapped to 1");
            }
        }
    };
}
normalize_range!(normalize_range_n1, 1);
normalize_range!(normalize_range_n2, 2);

// Scores drawn from a table of extreme / boundary f32 values (bounded: exhaustive over the table, every
// combination of N entries).  The fully symbolic instance above does not answer for N >= 2 (f64 division);
// this one keeps the clause "normalized scores lie in [0,1], maximum mapped to 1" under a deciding
// obligation for the inputs where it is known to be at risk (range overflow, ties, denormals, signs).
fn table_score() -> f32 {
    let w: u8 = kani::any();
    match w % 12 {
        0 => 3.0e38,
        1 => -3.0e38,
        2 => f32::MAX,
        3 => f32::MIN,
        4 => 0.0,
        5 => 1.0,
        6 => -1.0,
        7 => f32::MIN_POSITIVE,
        8 => 1.0e-45,
        9 => 0.1,
        10 => 16777216.0,
        _ => 16777217.0,
    }
}

macro_rules! normalize_table {
    ($name:ident, $n:expr) => {
        #[kani::proof]
        #[kani::unwind(6)]
        fn $name() {
            let mut s = [0.0f32; $n];
            let mut i = 0;
            while i < $n {
                s[i] = table_score();
                i += 1;
            }
            let v = normalize_scores(&s);
            assert!(v.len() == $n, "same length");
            let mut max_i = 0;
            i = 0;
            while i < $n {
                if s[i] > s[max_i] {
                    max_i = i;
                }
                i += 1;
            }
            i = 0;
            while i < $n {
                assert!(v[i] >= 0.0 && v[i] <= 1.0, "normalized score in [0,1]");
                i += 1;
            }
            assert!(v[max_i] == 1.0, "maximum mapped to 1");
            kani::cover!(s[0] == 3.0e38 && s[$n - 1] == -3.0e38, "f32 range overflow case");
        }
    };
}
normalize_table!(normalize_table_n2, 2);
normalize_table!(normalize_table_n3, 3);
