// Kani harnesses for src/io/header.rs. Loop-free, full domain => complete proofs.
use super::*;

fn any_header() -> Header {
    Header {
        magic: kani::any(),
        version: kani::any(),
        footer_offset: kani::any(),
        wal_offset: kani::any(),
        wal_size: kani::any(),
        wal_checkpoint_pos: kani::any(),
        wal_sequence: kani::any(),
        toc_checksum: kani::any(),
    }
}

fn same(a: &Header, b: &Header) -> bool {
    a.magic == b.magic
        && a.version == b.version
        && a.footer_offset == b.footer_offset
        && a.wal_offset == b.wal_offset
        && a.wal_size == b.wal_size
        && a.wal_checkpoint_pos == b.wal_checkpoint_pos
        && a.wal_sequence == b.wal_sequence
        && a.toc_checksum == b.toc_checksum
}

/// H1: every header value either encodes and decodes back to itself, or is rejected by encode for
/// exactly the four documented reasons.
#[kani::proof]
fn header_encode_decode_roundtrip() {
    let h = any_header();
    let valid = h.magic == MAGIC && h.version == EXPECTED_VERSION && h.wal_offset >= WAL_OFFSET && h.wal_size != 0;
    match HeaderCodec::encode(&h) {
        Ok(b) => {
            kani::cover!(true, "some header encodes");
            assert!(valid, "encode accepts only valid headers");
            match HeaderCodec::decode(&b) {
                Ok(d) => assert!(same(&d, &h), "decode(encode(h)) == h"),
                Err(_) => assert!(false, "decode rejects an encoded header"),
            }
        }
        Err(_) => {
            kani::cover!(true, "some header is rejected");
            assert!(!valid, "encode rejects only invalid headers");
        }
    }
}

/// H2/H3: for EVERY 4096-byte image decode never panics; if it accepts, the first 80 bytes are the
/// canonical encoding of the value returned and all validity conditions hold; if any of magic,
/// version, spec bytes, wal_offset, wal_size is inconsistent it rejects.
#[kani::proof]
fn header_decode_implies_encode() {
    let b: [u8; HEADER_SIZE] = kani::any();
    let magic_ok = b[0..4] == MAGIC;
    let version_ok = u16::from_le_bytes([b[4], b[5]]) == EXPECTED_VERSION;
    let spec_ok = b[6] == SPEC_MAJOR && b[7] == SPEC_MINOR;
    let wal_off = u64::from_le_bytes([b[16], b[17], b[18], b[19], b[20], b[21], b[22], b[23]]);
    let wal_size = u64::from_le_bytes([b[24], b[25], b[26], b[27], b[28], b[29], b[30], b[31]]);
    let fields_ok = magic_ok && version_ok && spec_ok && wal_off >= WAL_OFFSET && wal_size != 0;
    match HeaderCodec::decode(&b) {
        Ok(h) => {
            kani::cover!(true, "some image decodes");
            assert!(fields_ok, "decode accepts only consistent images");
            match HeaderCodec::encode(&h) {
                Ok(e) => {
                    assert!(e[..TOC_CHECKSUM_END] == b[..TOC_CHECKSUM_END], "first 80 bytes are the canonical encoding");
                }
                Err(_) => assert!(false, "decoded header does not re-encode"),
            }
        }
        Err(_) => {
            kani::cover!(true, "some image is rejected");
            assert!(!fields_ok, "decode rejects only inconsistent images");
        }
    }
}

/// H4: clear_legacy_lock_metadata changes only bytes 80..140, zeroes them, and reports whether it
/// changed anything.
#[kani::proof]
#[kani::unwind(62)]
fn header_clear_legacy_lock() {
    let mut b: [u8; HEADER_SIZE] = kani::any();
    let orig = b;
    let i: usize = kani::any();
    kani::assume(i < HEADER_SIZE);
    let changed = clear_legacy_lock_metadata(&mut b);
    if i < LEGACY_LOCK_REGION_START || i >= LEGACY_LOCK_REGION_END {
        assert!(b[i] == orig[i], "bytes outside 80..140 untouched");
    } else {
        assert!(b[i] == 0, "legacy region zeroed");
        if orig[i] != 0 {
            assert!(changed, "reports a change when a byte was non-zero");
        }
    }
    let j: usize = kani::any();
    kani::assume(j >= LEGACY_LOCK_REGION_START && j < LEGACY_LOCK_REGION_END);
    if changed {
        kani::cover!(true, "legacy bytes present");
    }
    assert!(LEGACY_LOCK_REGION_START == 80 && LEGACY_LOCK_REGION_END == 140);
}
