// Kani contracts and harnesses for src/lex.rs (C35).  Modular: each helper's kani::requires/ensures
// contract (injected by the overlay, see kani/inject.json) is proved by its own proof_for_contract over
// EVERY valid UTF-8 string of exactly L bytes (L in the harness name; bounded by L) and every usize
// index; compute_snippet_slices is then verified against the helpers' CONTRACTS (stub_verified).
use super::*;

pub(super) fn is_boundary(content: &str, i: usize) -> bool {
    i <= content.len() && content.is_char_boundary(i)
}

fn utf8<const N: usize>(bytes: &[u8; N]) -> &str {
    match core::str::from_utf8(bytes) {
        Ok(s) => s,
        Err(_) => {
            kani::assume(false);
            ""
        }
    }
}

macro_rules! helper_contracts {
    ($l:expr, $u:expr, $prev:ident, $next:ident, $start:ident, $end:ident, $adv:ident) => {
        #[kani::proof_for_contract(prev_char_boundary)]
        #[kani::unwind($u)]
        fn $prev() {
            let bytes: [u8; $l] = kani::any();
            let s = utf8(&bytes);
            let _ = prev_char_boundary(s, kani::any());
        }
        #[kani::proof_for_contract(next_char_boundary)]
        #[kani::unwind($u)]
        fn $next() {
            let bytes: [u8; $l] = kani::any();
            let s = utf8(&bytes);
            let _ = next_char_boundary(s, kani::any());
        }
        #[kani::proof_for_contract(sentence_start_before)]
        #[kani::unwind($u)]
        fn $start() {
            let bytes: [u8; $l] = kani::any();
            let s = utf8(&bytes);
            let _ = sentence_start_before(s, kani::any());
        }
        #[kani::proof_for_contract(sentence_end_after)]
        #[kani::unwind($u)]
        fn $end() {
            let bytes: [u8; $l] = kani::any();
            let s = utf8(&bytes);
            let _ = sentence_end_after(s, kani::any());
        }
        #[kani::proof_for_contract(advance_boundary)]
        #[kani::unwind($u)]
        fn $adv() {
            let bytes: [u8; $l] = kani::any();
            let s = utf8(&bytes);
            let _ = advance_boundary(s, kani::any(), kani::any());
        }
    };
}
helper_contracts!(1, 3, prev_boundary_contract_l1, next_boundary_contract_l1, sentence_start_contract_l1, sentence_end_contract_l1, advance_contract_l1);
helper_contracts!(2, 4, prev_boundary_contract_l2, next_boundary_contract_l2, sentence_start_contract_l2, sentence_end_contract_l2, advance_contract_l2);
helper_contracts!(3, 5, prev_boundary_contract_l3, next_boundary_contract_l3, sentence_start_contract_l3, sentence_end_contract_l3, advance_contract_l3);
helper_contracts!(4, 6, prev_boundary_contract_l4, next_boundary_contract_l4, sentence_start_contract_l4, sentence_end_contract_l4, advance_contract_l4);

/// C35 postcondition of compute_snippet_slices
fn slices_ok(content: &str, out: &[(usize, usize)], max_snippets: usize) {
    assert!(out.len() <= max_snippets, "at most max_snippets slices");
    let mut i = 0;
    while i < out.len() {
        let (s, e) = out[i];
        assert!(s < e, "slice is non-empty");
        assert!(e <= content.len(), "slice inside the text");
        assert!(content.is_char_boundary(s) && content.is_char_boundary(e), "slice on char boundaries");
        if i > 0 {
            assert!(out[i - 1].1 <= s, "slices non-overlapping");
            assert!(out[i - 1].0 < s, "slices strictly increasing");
        }
        let _ = &content[s..e]; // slicing never panics
        i += 1;
    }
}

macro_rules! snippet_slices {
    ($name:ident, $l:expr, $k:expr) => {
        #[kani::proof]
        #[kani::stub_verified(prev_char_boundary)]
        #[kani::stub_verified(next_char_boundary)]
        #[kani::stub_verified(sentence_start_before)]
        #[kani::stub_verified(sentence_end_after)]
        #[kani::stub_verified(advance_boundary)]
        #[kani::unwind(8)]
        fn $name() {
            let bytes: [u8; $l] = kani::any();
            let s = utf8(&bytes);
            let occ: [(usize, usize); $k] = kani::any();
            let window: usize = kani::any();
            let max_snippets: usize = kani::any();
            let out = compute_snippet_slices(s, &occ, window, max_snippets);
            slices_ok(s, &out, max_snippets);
        }
    };
}
snippet_slices!(snippet_slices_l0_k1, 0, 1);
snippet_slices!(snippet_slices_l1_k0, 1, 0);
snippet_slices!(snippet_slices_l1_k1, 1, 1);
snippet_slices!(snippet_slices_l2_k1, 2, 1);
snippet_slices!(snippet_slices_l3_k1, 3, 1);
snippet_slices!(snippet_slices_l2_k2, 2, 2);
snippet_slices!(snippet_slices_l3_k2, 3, 2);
snippet_slices!(snippet_slices_l4_k2, 4, 2);
snippet_slices!(snippet_slices_l3_k3, 3, 3);
