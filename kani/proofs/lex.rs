// Kani contracts and harnesses for src/lex.rs (C35).  Modular: each helper's kani::requires/ensures
// contract (injected by the overlay, see kani/inject.json) is proved by its own proof_for_contract over
// EVERY valid UTF-8 string of exactly L bytes (L in the harness name; bounded by L) and every usize
// index; compute_snippet_slices is then verified against the helpers' CONTRACTS (stub_verified).
use super::*;

pub(super) fn is_boundary(content: &str, i: usize) -> bool {
    i <= content.len() && content.is_char_boundary(i)
}

// Every valid UTF-8 string of exactly N bytes (N <= 4), WITHOUT running std's validator under CBMC (its
// word-at-a-time ASCII fast path with align_offset dominated the cost and exhausted the memory cap): the
// byte string is constrained to one of the well-formed shapes of Unicode Table 3-7 (all compositions of
// scalar widths summing to N, each scalar within its well-formed byte ranges), selected by a symbolic
// index, and then viewed as &str unchecked.  tools/check_utf8_shapes.py cross-checks the predicate against
// a strict UTF-8 decoder exhaustively for N <= 3 and on all lead/second-byte combinations for N = 4.
fn cont(b: u8) -> bool {
    b >= 0x80 && b <= 0xBF
}
fn w1(b: &[u8], i: usize) -> bool {
    b[i] < 0x80
}
fn w2(b: &[u8], i: usize) -> bool {
    b[i] >= 0xC2 && b[i] <= 0xDF && cont(b[i + 1])
}
fn w3(b: &[u8], i: usize) -> bool {
    let (x, y, z) = (b[i], b[i + 1], b[i + 2]);
    cont(z)
        && ((x == 0xE0 && y >= 0xA0 && y <= 0xBF)
            || (x >= 0xE1 && x <= 0xEC && cont(y))
            || (x == 0xED && y >= 0x80 && y <= 0x9F)
            || (x >= 0xEE && x <= 0xEF && cont(y)))
}
fn w4(b: &[u8], i: usize) -> bool {
    let (x, y) = (b[i], b[i + 1]);
    cont(b[i + 2])
        && cont(b[i + 3])
        && ((x == 0xF0 && y >= 0x90 && y <= 0xBF) || (x >= 0xF1 && x <= 0xF3 && cont(y)) || (x == 0xF4 && y >= 0x80 && y <= 0x8F))
}

pub(super) fn well_formed<const N: usize>(b: &[u8; N]) -> bool {
    let sel: u8 = kani::any();
    match N {
        0 => true,
        1 => w1(b, 0),
        2 => match sel % 2 {
            0 => w1(b, 0) && w1(b, 1),
            _ => w2(b, 0),
        },
        3 => match sel % 4 {
            0 => w1(b, 0) && w1(b, 1) && w1(b, 2),
            1 => w1(b, 0) && w2(b, 1),
            2 => w2(b, 0) && w1(b, 2),
            _ => w3(b, 0),
        },
        _ => match sel % 8 {
            0 => w1(b, 0) && w1(b, 1) && w1(b, 2) && w1(b, 3),
            1 => w1(b, 0) && w1(b, 1) && w2(b, 2),
            2 => w1(b, 0) && w2(b, 1) && w1(b, 3),
            3 => w2(b, 0) && w1(b, 2) && w1(b, 3),
            4 => w2(b, 0) && w2(b, 2),
            5 => w1(b, 0) && w3(b, 1),
            6 => w3(b, 0) && w1(b, 3),
            _ => w4(b, 0),
        },
    }
}

fn utf8<const N: usize>(bytes: &[u8; N]) -> &str {
    kani::assume(N <= 4 && well_formed(bytes));
    unsafe { core::str::from_utf8_unchecked(bytes) }
}

// ---- the helpers' contracts, as predicates.  Single source of truth: the kani::requires / kani::ensures
// attributes that the overlay puts on the real functions (kani/inject.json) call exactly these functions, so
// what compute_snippet_slices ASSUMES about a helper (stub_verified) is literally what is PROVED of it below.
pub(super) fn post_prev(content: &str, idx: usize, r: usize) -> bool {
    r <= content.len() && r <= idx && content.is_char_boundary(r) && (idx > content.len() || !content.is_char_boundary(idx) || r == idx)
}
pub(super) fn post_next(content: &str, idx: usize, r: usize) -> bool {
    r <= content.len()
        && content.is_char_boundary(r)
        && (idx > content.len() || r >= idx)
        && (idx > content.len() || !content.is_char_boundary(idx) || r == idx)
}
pub(super) fn post_sentence(content: &str, r: &Option<usize>) -> bool {
    match r {
        Some(p) => *p <= content.len() && content.is_char_boundary(*p),
        None => true,
    }
}
pub(super) fn pre_advance(content: &str, start: usize) -> bool {
    start >= content.len() || content.is_char_boundary(start)
}
pub(super) fn post_advance(content: &str, start: usize, window: usize, r: usize) -> bool {
    r <= content.len()
        && content.is_char_boundary(r)
        && (start >= content.len() || window == 0 || r > start)
        && (start < content.len() || r == content.len())
}

// Each contract is proved on the real helper for EVERY well-formed UTF-8 text of exactly L bytes and EVERY
// usize argument (assume pre, call, assert post).  Kani's proof_for_contract form is used for the two
// loop-only helpers; for the three char_indices-based ones its write-set instrumentation exhausts 20 GB
// even at L = 2 ("Solver ran out of memory during propositional reduction"), while this form answers in
// seconds - so their contracts are discharged by plain harnesses over the same predicates.
macro_rules! helper_contracts {
    ($l:expr, $u:expr, $prev:ident, $next:ident, $start:ident, $end:ident, $adv:ident) => {
        #[kani::proof_for_contract(prev_char_boundary)]
        #[kani::unwind($u)]
        fn $prev() {
            let bytes: [u8; $l] = kani::any();
            let s = utf8(&bytes);
            let _ = prev_char_boundary(s, kani::any());
        }
        #[kani::proof_for_contract(next_char_boundary)]
        #[kani::unwind($u)]
        fn $next() {
            let bytes: [u8; $l] = kani::any();
            let s = utf8(&bytes);
            let _ = next_char_boundary(s, kani::any());
        }
        #[kani::proof]
        #[kani::unwind(9)]
        fn $start() {
            let bytes: [u8; $l] = kani::any();
            let s = utf8(&bytes);
            let r = sentence_start_before(s, kani::any());
            assert!(post_sentence(s, &r), "contract of sentence_start_before");
        }
        #[kani::proof]
        #[kani::unwind(9)]
        fn $end() {
            let bytes: [u8; $l] = kani::any();
            let s = utf8(&bytes);
            let r = sentence_end_after(s, kani::any());
            assert!(post_sentence(s, &r), "contract of sentence_end_after");
        }
        #[kani::proof]
        #[kani::unwind(9)]
        fn $adv() {
            let bytes: [u8; $l] = kani::any();
            let s = utf8(&bytes);
            let start: usize = kani::any();
            let window: usize = kani::any();
            kani::assume(pre_advance(s, start));
            let r = advance_boundary(s, start, window);
            assert!(post_advance(s, start, window, r), "contract of advance_boundary");
        }
    };
}
helper_contracts!(1, 3, prev_boundary_contract_l1, next_boundary_contract_l1, sentence_start_contract_l1, sentence_end_contract_l1, advance_contract_l1);
helper_contracts!(2, 4, prev_boundary_contract_l2, next_boundary_contract_l2, sentence_start_contract_l2, sentence_end_contract_l2, advance_contract_l2);
helper_contracts!(3, 5, prev_boundary_contract_l3, next_boundary_contract_l3, sentence_start_contract_l3, sentence_end_contract_l3, advance_contract_l3);
helper_contracts!(4, 6, prev_boundary_contract_l4, next_boundary_contract_l4, sentence_start_contract_l4, sentence_end_contract_l4, advance_contract_l4);

/// C35 postcondition of compute_snippet_slices
fn slices_ok(content: &str, out: &[(usize, usize)], max_snippets: usize) {
    assert!(out.len() <= max_snippets, "at most max_snippets slices");
    let mut i = 0;
    while i < out.len() {
        let (s, e) = out[i];
        assert!(s < e, "slice is non-empty");
        assert!(e <= content.len(), "slice inside the text");
        assert!(content.is_char_boundary(s) && content.is_char_boundary(e), "slice on char boundaries");
        if i > 0 {
            assert!(out[i - 1].1 <= s, "slices non-overlapping");
            assert!(out[i - 1].0 < s, "slices strictly increasing");
        }
        // `&content[s..e]` panics iff !(s <= e <= len) or s / e is not a char boundary (std contract of str
        // indexing): exactly the four assertions above.  The slice itself is not built here - a slice of
        // symbolic length is what makes CBMC's formula explode.
        i += 1;
    }
}

macro_rules! snippet_slices {
    ($name:ident, $l:expr, $k:expr) => {
        #[kani::proof]
        #[kani::stub_verified(prev_char_boundary)]
        #[kani::stub_verified(next_char_boundary)]
        #[kani::stub_verified(sentence_start_before)]
        #[kani::stub_verified(sentence_end_after)]
        #[kani::stub_verified(advance_boundary)]
        #[kani::unwind(8)]
        fn $name() {
            let bytes: [u8; $l] = kani::any();
            let s = utf8(&bytes);
            let occ: [(usize, usize); $k] = kani::any();
            let window: usize = kani::any();
            let max_snippets: usize = kani::any();
            let out = compute_snippet_slices(s, &occ, window, max_snippets);
            slices_ok(s, &out, max_snippets);
        }
    };
}
snippet_slices!(snippet_slices_l0_k1, 0, 1);
snippet_slices!(snippet_slices_l1_k0, 1, 0);
snippet_slices!(snippet_slices_l1_k1, 1, 1);
snippet_slices!(snippet_slices_l2_k1, 2, 1);
snippet_slices!(snippet_slices_l3_k1, 3, 1);
snippet_slices!(snippet_slices_l2_k2, 2, 2);
snippet_slices!(snippet_slices_l3_k2, 3, 2);
snippet_slices!(snippet_slices_l4_k2, 4, 2);
snippet_slices!(snippet_slices_l3_k3, 3, 3);

// Long-text instances.  With a text of <= 4 bytes every window lies within 20 bytes of the previous slice, so
// the merge branch always fires and `merged` never holds two slices: the clauses "strictly increasing,
// non-overlapping, at most max_snippets" are only exercised on a text longer than 20 bytes.  The helpers
// are replaced by their contracts (stub_verified), so compute_snippet_slices reads the text only through
// len() / is_char_boundary(); a CONCRETE ASCII text of 64 bytes keeps those cheap while occurrences,
// window and max stay fully symbolic.  (Bounded: this one text length, k occurrences.)
const ASCII64: &str = "The quick brown fox. Jumps over the lazy dog! And runs away? ok.";
const ASCII24: &str = "Hi there. Yes! No? ok ok";

macro_rules! snippet_slices_long {
    ($name:ident, $k:expr) => {
        snippet_slices_long!($name, $k, ASCII64);
    };
    ($name:ident, $k:expr, $text:expr) => {
        #[kani::proof]
        #[kani::stub_verified(prev_char_boundary)]
        #[kani::stub_verified(next_char_boundary)]
        #[kani::stub_verified(sentence_start_before)]
        #[kani::stub_verified(sentence_end_after)]
        #[kani::stub_verified(advance_boundary)]
        #[kani::unwind(8)]
        fn $name() {
            let s = $text;
            let occ: [(usize, usize); $k] = kani::any();
            let window: usize = kani::any();
            let max_snippets: usize = kani::any();
            let out = compute_snippet_slices(s, &occ, window, max_snippets);
            slices_ok(s, &out, max_snippets);
            kani::cover!(out.len() == $k, "one slice per occurrence (no merge)");
            kani::cover!(out.len() == 1, "everything merged");
        }
    };
}
snippet_slices_long!(snippet_slices_ascii24_k2, 2, ASCII24);
snippet_slices_long!(snippet_slices_ascii64_k2, 2);
snippet_slices_long!(snippet_slices_ascii64_k3, 3);

/// 3 occurrences, window fixed to 0 (occurrences and max_snippets fully symbolic): the cheapest instance in
/// which three separate slices - and therefore the interplay of merge branch and push branch - are reachable.
#[kani::proof]
#[kani::stub_verified(prev_char_boundary)]
#[kani::stub_verified(next_char_boundary)]
#[kani::stub_verified(sentence_start_before)]
#[kani::stub_verified(sentence_end_after)]
#[kani::stub_verified(advance_boundary)]
#[kani::unwind(8)]
fn snippet_slices_ascii64_k3_w0() {
    let s = ASCII64;
    let occ: [(usize, usize); 3] = kani::any();
    let max_snippets: usize = kani::any();
    let out = compute_snippet_slices(s, &occ, 0, max_snippets);
    slices_ok(s, &out, max_snippets);
    kani::cover!(out.len() == 3, "three separate slices");
    kani::cover!(out.len() == 2, "two slices, one merge");
}

// Kani requires a #[proof_for_contract] harness for every stub_verified target.  For the three
// char_indices-based helpers that form is only affordable on the empty text (see above); these are genuine,
// if small, instances - the non-trivial instances are the plain harnesses `*_contract_l1..l4`.
#[kani::proof_for_contract(sentence_start_before)]
#[kani::unwind(3)]
fn sentence_start_contract_l0() {
    let _ = sentence_start_before("", kani::any());
}
#[kani::proof_for_contract(sentence_end_after)]
#[kani::unwind(3)]
fn sentence_end_contract_l0() {
    let _ = sentence_end_after("", kani::any());
}
#[kani::proof_for_contract(advance_boundary)]
#[kani::unwind(3)]
fn advance_contract_l0() {
    let _ = advance_boundary("", kani::any(), kani::any());
}
