// Kani harnesses for src/footer.rs (child module of the real file: sees private items).
// All loop-free over full-domain symbolic inputs => complete proofs (no bound).
use super::*;

/// C30/C31: decode(encode(f)) == Some(f) for every footer value.
#[kani::proof]
fn footer_roundtrip() {
    let f = CommitFooter {
        toc_len: kani::any(),
        toc_hash: kani::any(),
        generation: kani::any(),
    };
    let b = f.encode();
    let d = CommitFooter::decode(&b);
    assert!(d.is_some(), "decode(encode(f)) is Some");
    let d = d.unwrap();
    assert!(d.toc_len == f.toc_len, "toc_len round-trips");
    assert!(d.toc_hash == f.toc_hash, "toc_hash round-trips");
    assert!(d.generation == f.generation, "generation round-trips");
    assert!(b[0] == FOOTER_MAGIC[0], "image starts with the magic's first byte");
}

/// C30/C31/C22: for EVERY 56-byte image, decode never panics, and when it accepts the image is
/// exactly the encoding of the returned value (so it starts with the magic and no two different
/// images decode to the same value / no value is invented).  Discharges `axiom_decode_magic`.
#[kani::proof]
fn footer_decode_implies_encode() {
    let b: [u8; FOOTER_SIZE] = kani::any();
    match CommitFooter::decode(&b) {
        Some(f) => {
            kani::cover!(true, "decode accepts some image");
            assert!(f.encode() == b, "accepted image is the canonical encoding");
            assert!(b[0] == FOOTER_MAGIC[0], "accepted image starts with magic[0]");
            assert!(b[..FOOTER_MAGIC.len()] == FOOTER_MAGIC[..], "accepted image carries the whole magic");
        }
        None => {
            kani::cover!(true, "decode rejects some image");
            assert!(b[..FOOTER_MAGIC.len()] != FOOTER_MAGIC[..], "a 56-byte image is rejected only for its magic");
        }
    }
}

/// C30/C22: any slice whose length is not FOOTER_SIZE is rejected without panicking.
#[kani::proof]
fn footer_decode_rejects_wrong_length() {
    let b: [u8; 72] = kani::any();
    let n: usize = kani::any();
    kani::assume(n <= 72 && n != FOOTER_SIZE);
    kani::cover!(n == 55, "one short");
    kani::cover!(n == 57, "one long");
    assert!(CommitFooter::decode(&b[..n]).is_none(), "wrong length rejected");
}

/// FOOTER_SIZE is what the Verus unit evaluates it to.
#[kani::proof]
fn footer_size_constant() {
    assert!(FOOTER_SIZE == FOOTER_MAGIC.len() + 8 + 32 + 8);
    assert!(FOOTER_SIZE == 56);
}

// ---- hash_matches: the predicate Verus sees as `spec_hash_ok` is "blake3(toc) == toc_hash", all 32 bytes.
// blake3's Hasher is replaced by a ghost accumulator (A-HASH): update folds every byte and the length into
// GHOST_ACC, finalize returns it.  The obligation: hash_matches(f, toc) <=> H(toc) == f.toc_hash, where H is
// the same fold computed directly.  TOC length L enumerated (the loop is in the stub, not in the real code).
static mut GHOST_ACC: [u8; 32] = [0u8; 32];
static mut GHOST_UPDATES: u32 = 0;

fn fold(acc: &mut [u8; 32], data: &[u8]) {
    let mut i = 0;
    while i < data.len() {
        let k = i % 32;
        acc[k] = acc[k].rotate_left(3) ^ data[i] ^ (i as u8);
        i += 1;
    }
    acc[31] ^= data.len() as u8;
}

pub(super) fn hasher_new_stub() -> Hasher {
    unsafe {
        GHOST_ACC = [0x5Au8; 32];
        GHOST_UPDATES = 0;
        core::mem::zeroed()
    }
}
pub(super) fn hasher_update_stub<'a>(h: &'a mut Hasher, d: &[u8]) -> &'a mut Hasher {
    unsafe {
        let mut acc = GHOST_ACC;
        fold(&mut acc, d);
        GHOST_ACC = acc;
        GHOST_UPDATES += 1;
    }
    h
}
pub(super) fn hasher_finalize_stub(_h: &Hasher) -> blake3::Hash {
    blake3::Hash::from_bytes(unsafe { GHOST_ACC })
}

macro_rules! hash_matches_contract {
    ($name:ident, $l:expr) => {
        #[kani::proof]
        #[kani::stub(blake3::Hasher::new, hasher_new_stub)]
        #[kani::stub(blake3::Hasher::update, hasher_update_stub)]
        #[kani::stub(blake3::Hasher::finalize, hasher_finalize_stub)]
        #[kani::unwind(34)]
        fn $name() {
            let toc: [u8; $l] = kani::any();
            let f = CommitFooter { toc_len: kani::any(), toc_hash: kani::any(), generation: kani::any() };
            let mut want = [0x5Au8; 32];
            fold(&mut want, &toc);
            let got = f.hash_matches(&toc);
            assert!(got == (want == f.toc_hash), "hash_matches <=> H(toc) == toc_hash on all 32 bytes");
            kani::cover!(got, "some footer matches");
            kani::cover!(!got, "some footer does not match");
        }
    };
}
hash_matches_contract!(footer_hash_matches_l1, 1);
hash_matches_contract!(footer_hash_matches_l5, 5);
