// Kani harnesses for src/memvid/lifecycle.rs (C22): verify_toc_prefix, the guard that bounds what a TOC
// image may claim before it is handed to the bincode decoder.  Arbitrary images of fixed lengths (bounded
// by the length; every byte value).  Contract: never panics; accepts exactly the images whose declared
// version / segment count / frame count are within the limits and whose minimum payload fits the image.
use super::*;

pub(super) fn fmt_stub(_args: core::fmt::Arguments<'_>) -> String {
    String::new()
}

fn le64(b: &[u8]) -> u64 {
    u64::from_le_bytes([b[0], b[1], b[2], b[3], b[4], b[5], b[6], b[7]])
}

macro_rules! toc_prefix {
    ($name:ident, $len:expr) => {
        #[kani::proof]
        #[kani::stub(alloc::fmt::format, fmt_stub)]
        #[kani::unwind(10)]
        fn $name() {
            let img: [u8; $len] = kani::any();
            let r = verify_toc_prefix(&img);
            if $len < 24 {
                assert!(r.is_err(), "an image shorter than the 24-byte trailer is rejected");
            } else {
                let version = le64(&img[0..8]);
                let segments = le64(&img[8..16]);
                let frames = le64(&img[16..24]);
                let within = version <= 32 && segments <= 1_000_000 && frames <= 1_000_000;
                // with both counts <= 10^6 the products cannot overflow u64
                let fits = within && segments * 32 + frames * 64 <= $len as u64;
                assert!(r.is_ok() == fits, "accepted iff version/counts are within limits and the minimum payload fits");
                kani::cover!(r.is_ok(), "some image accepted");
                kani::cover!(r.is_err(), "some image rejected");
            }
        }
    };
}
toc_prefix!(toc_prefix_len0, 0);
toc_prefix!(toc_prefix_len8, 8);
toc_prefix!(toc_prefix_len23, 23);
toc_prefix!(toc_prefix_len24, 24);
toc_prefix!(toc_prefix_len120, 120);
