// Kani harnesses for src/vec.rs (C13): VecIndex::search, brute-force (Uncompressed) representation.
// l2_distance is replaced by its contract: for each document SOME non-NaN f32 >= 0 (recorded in ghost
// state), so the obligation is about ranking/truncation, independent of the float definition (C38).
// Bounded: exactly M documents per harness (M stated in the name); distances, ids and k full-domain.
use super::*;

static mut GHOST_DIST: [f32; 8] = [0.0; 8];
static mut GHOST_CALLS: usize = 0;

/// contract stub of l2_distance: a total function of the document (keyed by embedding[0]), non-NaN, >= 0
pub(super) fn l2_stub(_a: &[f32], b: &[f32]) -> f32 {
    let idx = b[0] as usize;
    unsafe {
        GHOST_CALLS += 1;
        GHOST_DIST[idx]
    }
}

// The document vector is built from a LITERAL (exact capacity, concrete length): with a push loop the Vec
// length stays opaque to CBMC's constant propagation and every instance costs 10-20x more (m = 1: 66 s vs 3 s),
// which made the harnesses undecidable as soon as the code under test grew (Vec::retain, a second truncate).
macro_rules! search_exact {
    ($name:ident, $m:expr, [$($i:expr),*]) => {
        #[kani::proof]
        #[kani::stub(l2_distance, l2_stub)]
        #[kani::unwind(8)]
        fn $name() {
            let ids: [u64; $m] = kani::any();
            let mut i = 0;
            while i < $m {
                let d: f32 = kani::any();
                kani::assume(!d.is_nan() && d >= 0.0);
                unsafe {
                    GHOST_DIST[i] = d;
                }
                let mut j = 0;
                while j < i {
                    kani::assume(ids[j] != ids[i]);
                    j += 1;
                }
                i += 1;
            }
            let documents: Vec<VecDocument> = vec![$(VecDocument { frame_id: ids[$i], embedding: vec![$i as f32] }),*];
            let index = VecIndex::Uncompressed { documents };
            let k: usize = kani::any();
            let query = [0.5f32];
            let hits = index.search(&query, k);
            let want = if k < $m { k } else { $m };
            assert!(hits.len() == want, "min(k, m) hits");
            let mut used = [false; $m];
            let mut h = 0;
            while h < hits.len() {
                let mut found = false;
                let mut d = 0;
                while d < $m {
                    if ids[d] == hits[h].frame_id {
                        found = true;
                        assert!(!used[d], "no frame reported twice");
                        used[d] = true;
                        assert!(hits[h].distance == unsafe { GHOST_DIST[d] }, "hit carries its own document's distance");
                    }
                    d += 1;
                }
                assert!(found, "hit names an indexed frame");
                if h > 0 {
                    assert!(hits[h - 1].distance <= hits[h].distance, "non-decreasing distance");
                }
                h += 1;
            }
            if hits.len() > 0 {
                let last = hits[hits.len() - 1].distance;
                let mut d = 0;
                while d < $m {
                    if !used[d] {
                        assert!(!(unsafe { GHOST_DIST[d] } < last), "omitted frame is not closer than the last hit");
                    }
                    d += 1;
                }
            }
            kani::cover!($m < 2 || (k > 0 && k < $m), "truncation happens (m >= 2)");
            kani::cover!(k >= $m, "everything returned");
        }
    };
}
search_exact!(search_exact_m0, 0, []);
search_exact!(search_exact_m1, 1, [0]);
search_exact!(search_exact_m2, 2, [0, 1]);
search_exact!(search_exact_m3, 3, [0, 1, 2]);
search_exact!(search_exact_m4, 4, [0, 1, 2, 3]);
search_exact!(search_exact_m5, 5, [0, 1, 2, 3, 4]);
search_exact!(search_exact_m6, 6, [0, 1, 2, 3, 4, 5]);

/// Empty query => no hits, whatever the index holds.
#[kani::proof]
#[kani::stub(l2_distance, l2_stub)]
#[kani::unwind(4)]
fn search_empty_query() {
    let documents = vec![VecDocument { frame_id: kani::any(), embedding: vec![0.0] }];
    let index = VecIndex::Uncompressed { documents };
    let hits = index.search(&[], kani::any());
    assert!(hits.is_empty());
}

