// Kani harness for src/toc.rs (C30, checksum clause): the DECISION LOGIC of Toc::verify_checksum, verified
// modularly.  The three encoders (serde/bincode: outside CBMC's reach) and blake3 are replaced by ghost
// functions that keep exactly what matters for the decision: which format produced the bytes, a digest of
// the optional fields that format covers, and whether the stored checksum had been zeroed before encoding.
// Contract (C30: "decoding rejects any image whose ... checksum fields are inconsistent"): the stored
// checksum is accepted iff it equals the digest of an encoding (taken with the checksum field zeroed) in a
// format that COVERS every optional field present in the TOC - current format: always; V2 (no
// replay_manifest slot): only if replay_manifest is None; V1 (no memories_track / logic_mesh /
// replay_manifest slots): only if memories_track and replay_manifest are None.
use super::*;
use crate::types::{MemoriesTrackManifest, SegmentCatalog};

fn mem_byte(m: &Option<MemoriesTrackManifest>) -> u8 {
    match m {
        Some(x) => 1 + (x.card_count as u8 & 0x3F),
        None => 0,
    }
}
fn replay_byte(r: &Option<crate::replay::ReplayManifest>) -> u8 {
    match r {
        Some(x) => 1 + (x.session_count as u8 & 0x3F),
        None => 0,
    }
}
fn zeroed(c: &[u8; 32]) -> u8 {
    let mut i = 0;
    while i < 32 {
        if c[i] != 0 {
            return 0;
        }
        i += 1;
    }
    1
}

pub(super) fn enc_current(t: &Toc) -> Result<Vec<u8>> {
    Ok(vec![1, mem_byte(&t.memories_track), replay_byte(&t.replay_manifest), zeroed(&t.toc_checksum), t.toc_version as u8])
}
pub(super) fn enc_v2(t: &LegacyTocV2) -> Result<Vec<u8>> {
    Ok(vec![2, mem_byte(&t.memories_track), 0, zeroed(&t.toc_checksum), t.toc_version as u8])
}
pub(super) fn enc_v1(t: &LegacyTocV1) -> Result<Vec<u8>> {
    Ok(vec![3, 0, 0, zeroed(&t.toc_checksum), t.toc_version as u8])
}
/// injective on the 5-byte ghost encodings
pub(super) fn digest(bytes: &[u8]) -> [u8; 32] {
    let mut d = [0xA5u8; 32];
    d[0] = bytes[0];
    d[1] = bytes[1];
    d[2] = bytes[2];
    d[3] = bytes[3];
    d[4] = bytes[4];
    d
}

#[kani::proof]
#[kani::stub(Toc::encode, enc_current)]
#[kani::stub(LegacyTocV2::encode, enc_v2)]
#[kani::stub(LegacyTocV1::encode, enc_v1)]
#[kani::stub(Toc::calculate_checksum, digest)]
#[kani::unwind(34)]
fn toc_verify_checksum_decision() {
    let mem = if kani::any() {
        Some(MemoriesTrackManifest { bytes_offset: kani::any(), bytes_length: kani::any(), card_count: kani::any(), entity_count: kani::any(), checksum: kani::any() })
    } else {
        None
    };
    let replay = if kani::any() {
        Some(crate::replay::ReplayManifest { segment_offset: kani::any(), segment_size: kani::any(), session_count: kani::any(), total_actions: kani::any(), version: kani::any() })
    } else {
        None
    };
    let version: u64 = kani::any();
    // the stored checksum: the digest of one of the three candidate encodings, or anything else
    let which: u8 = kani::any();
    let m = mem_byte(&mem);
    let r = replay_byte(&replay);
    let stored: [u8; 32] = match which % 4 {
        0 => digest(&[1, m, r, 1, version as u8]),
        1 => digest(&[2, m, 0, 1, version as u8]),
        2 => digest(&[3, 0, 0, 1, version as u8]),
        _ => kani::any(),
    };
    let toc = Toc {
        toc_version: version,
        segments: Vec::new(),
        frames: Vec::new(),
        indexes: IndexManifests::default(),
        time_index: None,
        temporal_track: None,
        memories_track: mem,
        logic_mesh: None,
        sketch_track: None,
        segment_catalog: SegmentCatalog::default(),
        ticket_ref: TicketRef { issuer: String::new(), seq_no: kani::any(), expires_in_secs: kani::any(), capacity_bytes: kani::any(), verified: kani::any() },
        memory_binding: None,
        replay_manifest: replay,
        enrichment_queue: Default::default(),
        merkle_root: kani::any(),
        toc_checksum: stored,
    };
    let ok = toc.verify_checksum().is_ok();
    let cur = stored == digest(&[1, m, r, 1, version as u8]);
    let v2 = r == 0 && stored == digest(&[2, m, 0, 1, version as u8]);
    let v1 = r == 0 && m == 0 && stored == digest(&[3, 0, 0, 1, version as u8]);
    assert!(ok == (cur || v2 || v1), "checksum accepted iff it is the digest of a zero-checksum encoding in a format covering every present field");
    kani::cover!(ok && !cur && v2, "accepted through the V2 digest");
    kani::cover!(ok && !cur && !v2 && v1, "accepted through the V1 digest");
    kani::cover!(!ok && which % 4 == 2, "V1 digest rejected because memories_track / replay_manifest is present");
    kani::cover!(!ok && which % 4 == 1, "V2 digest rejected because replay_manifest is present");
}
