// Kani harnesses for src/io/wal.rs (C05 byte codec + scan-side cursor arithmetic, C22 for scan_records).
// std::fs::File is replaced by an in-memory disk through stubs of the REQUIRED trait methods (A-FILE);
// blake3::hash by a cheap deterministic function (A-HASH).  Child module of the real file: private
// fields and functions are visible, nothing is re-implemented except the executable copy of the
// Verus spec function `sp::scan` used as the oracle in wal_scan_matches_spec.
use super::*;
use std::os::fd::FromRawFd;

pub(super) const DISK: usize = 128;
static mut DISK_BYTES: [u8; DISK] = [0u8; DISK];
static mut DISK_POS: u64 = 0;
static mut IO_FAIL_AT: u32 = u32::MAX; // number of successful I/O calls before an injected error
static mut IO_CALLS: u32 = 0;

fn io_tick() -> bool {
    unsafe {
        let ok = IO_CALLS < IO_FAIL_AT;
        IO_CALLS = IO_CALLS.saturating_add(1);
        ok
    }
}

pub(super) fn stub_seek(_f: &mut File, to: SeekFrom) -> std::io::Result<u64> {
    if !io_tick() {
        return Err(std::io::Error::from(std::io::ErrorKind::Other));
    }
    match to {
        SeekFrom::Start(p) => unsafe {
            DISK_POS = p;
            Ok(p)
        },
        _ => Err(std::io::Error::from(std::io::ErrorKind::Unsupported)),
    }
}

pub(super) fn stub_write(_f: &mut File, buf: &[u8]) -> std::io::Result<usize> {
    if !io_tick() {
        return Err(std::io::Error::from(std::io::ErrorKind::Other));
    }
    unsafe {
        let pos = DISK_POS as usize;
        if DISK_POS > DISK as u64 || buf.len() > DISK - pos {
            // the harness disk does not grow: writing past its end is reported as an error
            return Err(std::io::Error::from(std::io::ErrorKind::WriteZero));
        }
        DISK_BYTES[pos..pos + buf.len()].copy_from_slice(buf);
        DISK_POS += buf.len() as u64;
        Ok(buf.len())
    }
}

pub(super) fn stub_read(_f: &mut File, buf: &mut [u8]) -> std::io::Result<usize> {
    if !io_tick() {
        return Err(std::io::Error::from(std::io::ErrorKind::Other));
    }
    unsafe {
        if DISK_POS >= DISK as u64 {
            return Ok(0);
        }
        let pos = DISK_POS as usize;
        let n = if buf.len() < DISK - pos { buf.len() } else { DISK - pos };
        buf[..n].copy_from_slice(&DISK_BYTES[pos..pos + n]);
        DISK_POS += n as u64;
        Ok(n)
    }
}

/// same as stub_read, copying element by element: keeps planted constants (length fields) visible to
/// CBMC's constant propagation, which a memcpy-style copy_from_slice loses
pub(super) fn stub_read_bytewise(_f: &mut File, buf: &mut [u8]) -> std::io::Result<usize> {
    unsafe {
        if DISK_POS >= DISK as u64 {
            return Ok(0);
        }
        let pos = DISK_POS as usize;
        let n = if buf.len() < DISK - pos { buf.len() } else { DISK - pos };
        let mut i = 0;
        while i < n {
            buf[i] = DISK_BYTES[pos + i];
            i += 1;
        }
        DISK_POS += n as u64;
        Ok(n)
    }
}

pub(super) fn stub_sync_all(_f: &File) -> std::io::Result<()> {
    if !io_tick() {
        return Err(std::io::Error::from(std::io::ErrorKind::Other));
    }
    Ok(())
}

pub(super) fn stub_try_clone(_f: &File) -> std::io::Result<File> {
    Ok(fake_file())
}

fn fake_file() -> File {
    // never used for real I/O (all methods stubbed) and never dropped (harnesses mem::forget it)
    unsafe { File::from_raw_fd(3) }
}

/// A-HASH stand-in: deterministic, cheap, depends on every byte and on the length.
pub(super) fn stub_hash(data: &[u8]) -> blake3::Hash {
    let mut h = [0u8; 32];
    let mut x: u8 = 0x5A;
    let mut i = 0;
    while i < data.len() {
        x = x.rotate_left(1) ^ data[i];
        i += 1;
    }
    h[0] = x;
    h[1] = data.len() as u8;
    blake3::Hash::from_bytes(h)
}

fn any_disk() {
    let d: [u8; DISK] = kani::any();
    unsafe {
        DISK_BYTES = d;
        DISK_POS = kani::any();
        IO_CALLS = 0;
        IO_FAIL_AT = u32::MAX;
    }
}

const OFF: u64 = 8; // region does not start at disk offset 0: offset arithmetic is exercised
const SIZE: u64 = 112; // region size: OFF + SIZE <= DISK

fn wal_with(write_head: u64, pending_bytes: u64, sequence: u64, checkpoint_sequence: u64, read_only: bool) -> EmbeddedWal {
    EmbeddedWal {
        file: fake_file(),
        region_offset: OFF,
        region_size: SIZE,
        write_head,
        checkpoint_head: kani::any(),
        pending_bytes,
        sequence,
        checkpoint_sequence,
        appends_since_checkpoint: kani::any(),
        read_only,
        skip_sync: kani::any(),
    }
}

fn le64(b: &[u8]) -> u64 {
    u64::from_le_bytes([b[0], b[1], b[2], b[3], b[4], b[5], b[6], b[7]])
}
fn le32(b: &[u8]) -> u32 {
    u32::from_le_bytes([b[0], b[1], b[2], b[3]])
}

// ---------------------------------------------------------------------------------------------
// A-CODEC (write side): the contract Verus ASSUMES for write_record (`rec_written`), proved here on the
// real function for payload lengths L (bounded by L), every position/sequence/payload/initial disk.
macro_rules! write_record_contract {
    ($name:ident, $l:expr, $pos:expr) => {
        #[kani::proof]
        #[kani::stub(<std::fs::File as std::io::Seek>::seek, stub_seek)]
        #[kani::stub(<std::fs::File as std::io::Write>::write, stub_write)]
        #[kani::stub(std::fs::File::sync_all, stub_sync_all)]
        #[kani::stub(blake3::hash, stub_hash)]
        #[kani::unwind(70)]
        fn $name() {
            any_disk();
            let before: [u8; DISK] = unsafe { DISK_BYTES };
            let mut wal = wal_with(kani::any(), kani::any(), kani::any(), kani::any(), false);
            let snapshot = (wal.write_head, wal.pending_bytes, wal.sequence, wal.checkpoint_sequence, wal.checkpoint_head, wal.appends_since_checkpoint);
            let payload: [u8; $l] = kani::any();
            let pos: u64 = $pos;
            let seq: u64 = kani::any();
            kani::assume(pos <= SIZE && pos + 48 + $l <= SIZE); // precondition of the assumed contract
            let r = wal.write_record(pos, seq, &payload);
            assert!(r.is_ok(), "write_record succeeds when the disk does");
            let after: [u8; DISK] = unsafe { DISK_BYTES };
            let a = (OFF + pos) as usize;
            // frame: nothing outside [pos, pos + 48 + len) changes (inside or outside the region)
            let i: usize = kani::any();
            kani::assume(i < DISK);
            if i < a || i >= a + 48 + $l {
                assert!(after[i] == before[i], "bytes outside the record are untouched");
            }
            assert!(le64(&after[a..a + 8]) == seq, "header carries the sequence");
            assert!(le32(&after[a + 8..a + 12]) as usize == $l, "header carries the payload length");
            let want = stub_hash(&payload);
            let j: usize = kani::any();
            kani::assume(j < 32);
            assert!(after[a + 16 + j] == want.as_bytes()[j], "header carries the payload checksum");
            let k: usize = kani::any();
            kani::assume(k < $l);
            assert!(after[a + 48 + k] == payload[k], "payload bytes follow the header");
            // cursors are not touched by write_record
            assert!(snapshot == (wal.write_head, wal.pending_bytes, wal.sequence, wal.checkpoint_sequence, wal.checkpoint_head, wal.appends_since_checkpoint), "write_record leaves the cursors alone");
            assert!(wal.region_offset == OFF && wal.region_size == SIZE && !wal.read_only);
            core::mem::forget(wal);
        }
    };
}
write_record_contract!(write_record_contract_len1_pos0, 1, 0);
write_record_contract!(write_record_contract_len2_pos3, 2, 3);
write_record_contract!(write_record_contract_len7_pos57, 7, 57);
write_record_contract!(write_record_contract_len64_pos0, 64, 0);
write_record_contract!(write_record_contract_len1_pos63, 1, 63);

/// write_record refuses on a read-only log and leaves the disk alone.
#[kani::proof]
#[kani::stub(<std::fs::File as std::io::Seek>::seek, stub_seek)]
#[kani::stub(<std::fs::File as std::io::Write>::write, stub_write)]
#[kani::stub(std::fs::File::sync_all, stub_sync_all)]
#[kani::stub(blake3::hash, stub_hash)]
#[kani::unwind(70)]
fn write_record_read_only() {
    any_disk();
    let before: [u8; DISK] = unsafe { DISK_BYTES };
    let mut wal = wal_with(kani::any(), kani::any(), kani::any(), kani::any(), true);
    let payload: [u8; 2] = kani::any();
    let r = wal.write_record(kani::any(), kani::any(), &payload);
    assert!(r.is_err(), "read-only log rejects writes");
    let after: [u8; DISK] = unsafe { DISK_BYTES };
    let i: usize = kani::any();
    kani::assume(i < DISK);
    assert!(after[i] == before[i], "and nothing is written");
    core::mem::forget(wal);
}

// ---------------------------------------------------------------------------------------------
// A-CODEC (scan side): scan_records on an ARBITRARY region image agrees with the executable copy of the
// Verus spec function sp::scan, and never panics (C22).  Bounded by the region size SIZE.
struct SpecScan {
    ok: bool,
    n: usize,
    seq: [u64; 3],
    start: [usize; 3],
    len: [usize; 3],
    end: u64,
}

fn spec_scan(region: &[u8]) -> SpecScan {
    // sp::scan(r, 0): is_end / rec_ok / rec_at, unrolled as a loop
    let mut out = SpecScan { ok: true, n: 0, seq: [0; 3], start: [0; 3], len: [0; 3], end: 0 };
    let mut c: usize = 0;
    loop {
        if c + 48 > region.len() {
            break; // is_end: no room for a header
        }
        let seq = le64(&region[c..c + 8]);
        let len = le32(&region[c + 8..c + 12]) as usize;
        if seq == 0 && len == 0 {
            break; // is_end: zero header
        }
        // rec_ok
        if len == 0 || c + 48 + len > region.len() {
            out.ok = false;
            break;
        }
        let sum = stub_hash(&region[c + 48..c + 48 + len]);
        let mut same = true;
        let mut j = 0;
        while j < 32 {
            if region[c + 16 + j] != sum.as_bytes()[j] {
                same = false;
            }
            j += 1;
        }
        if !same {
            out.ok = false;
            break;
        }
        if out.n < 3 {
            out.seq[out.n] = seq;
            out.start[out.n] = c + 48;
            out.len[out.n] = len;
        }
        out.n += 1;
        c += 48 + len;
    }
    out.end = c as u64;
    out
}

macro_rules! scan_matches_spec {
    ($name:ident, $size:expr, $unwind:expr, $len0:expr, $len1:expr) => {
#[kani::proof]
#[kani::stub(<std::fs::File as std::io::Seek>::seek, stub_seek)]
#[kani::stub(<std::fs::File as std::io::Read>::read, stub_read)]
#[kani::stub(blake3::hash, stub_hash)]
#[kani::unwind($unwind)]
fn $name() {
    any_disk();
    const RSIZE: u64 = $size;
    // Length fields are enumerated (concrete per instance): a symbolic Vec length makes CBMC diverge.
    // Everything else in the image (sequences, checksums, payloads, tail) is symbolic.
    let len0: u32 = $len0;
    unsafe {
        let b = len0.to_le_bytes();
        DISK_BYTES[OFF as usize + 8] = b[0];
        DISK_BYTES[OFF as usize + 9] = b[1];
        DISK_BYTES[OFF as usize + 10] = b[2];
        DISK_BYTES[OFF as usize + 11] = b[3];
    }
    let second = OFF as usize + 48 + len0 as usize;
    if len0 > 0 && second + 48 <= (OFF + RSIZE) as usize {
        let len1: u32 = $len1;
        unsafe {
            let b = len1.to_le_bytes();
            DISK_BYTES[second + 8] = b[0];
            DISK_BYTES[second + 9] = b[1];
            DISK_BYTES[second + 10] = b[2];
            DISK_BYTES[second + 11] = b[3];
        }
    }
    let disk: [u8; DISK] = unsafe { DISK_BYTES };
    let region = &disk[OFF as usize..(OFF + RSIZE) as usize];
    let spec = spec_scan(region);
    let mut f = fake_file();
    let got = EmbeddedWal::scan_records(&mut f, OFF, RSIZE);
    match got {
        Ok((recs, next)) => {
            assert!(spec.ok, "scan accepts only what the spec scan accepts");
            assert!(recs.len() == spec.n, "same number of records");
            assert!(next == spec.end, "same end cursor");
            let mut i = 0;
            while i < recs.len() && i < 3 {
                assert!(recs[i].sequence == spec.seq[i], "same sequence");
                assert!(recs[i].payload.len() == spec.len[i], "same payload length");
                assert!(recs[i].total_size == 48 + spec.len[i] as u64, "total_size = 48 + len");
                let k: usize = kani::any();
                kani::assume(k < spec.len[i]);
                assert!(recs[i].payload[k] == region[spec.start[i] + k], "same payload bytes");
                i += 1;
            }
            kani::cover!(!(($len0 as u64) > 0 && ($len1 as u64) > 0 && 96u64 + ($len0 as u64) + ($len1 as u64) <= $size) || recs.len() == 2, "two records scanned");
            kani::cover!(recs.len() == 1 && next as usize + 48 > region.len(), "scan stopped by the short tail");
            kani::cover!(recs.len() == 0, "scan stopped at once");
        }
        Err(_) => {
            assert!(!spec.ok, "scan rejects only what the spec scan rejects");
            kani::cover!(true, "some image is rejected");
        }
    }
    core::mem::forget(f);
}
    };
}
scan_matches_spec!(wal_scan_matches_spec_r64_len0, 64, 40, 0, 0);
scan_matches_spec!(wal_scan_matches_spec_r64_len1, 64, 40, 1, 0);
scan_matches_spec!(wal_scan_matches_spec_r64_len16, 64, 40, 16, 0);
scan_matches_spec!(wal_scan_matches_spec_r64_len17, 64, 40, 17, 0);
scan_matches_spec!(wal_scan_matches_spec_r64_len64, 64, 40, 64, 0);
scan_matches_spec!(wal_scan_matches_spec_r112_len1_len1, 112, 40, 1, 1);
scan_matches_spec!(wal_scan_matches_spec_r112_len8_len0, 112, 40, 8, 0);
scan_matches_spec!(wal_scan_matches_spec_r112_len8_len8, 112, 40, 8, 8);
scan_matches_spec!(wal_scan_matches_spec_r112_len8_len9, 112, 40, 8, 9);
scan_matches_spec!(wal_scan_matches_spec_r112_len16_len1, 112, 40, 16, 1);

// ---------------------------------------------------------------------------------------------
// Scan side, modular: records_after / pending_records / open_internal against the CONTRACT of
// scan_records (the stub below returns ANY result the contract allows: N records with symbolic
// sequences and payload bytes, total_size = 48 + len, sizes summing to at most `size`, a symbolic
// next_head <= size; or an error).  N is enumerated per harness (bounded by N).  The sentinel path
// (initialise_sentinel -> maybe_write_sentinel -> write_zero_header -> seek_and_write) runs for real on
// the in-memory disk.
static mut GHOST_N: usize = 0;
static mut GHOST_SEQ: [u64; 3] = [0; 3];
static mut GHOST_PAY: [u8; 3] = [0; 3]; // one payload byte per record (payload length 1 + index)
static mut GHOST_NEXT: u64 = 0;
static mut GHOST_SCAN_OK: bool = true;
static mut GHOST_SCAN_ARGS: (u64, u64) = (0, 0);

fn ghost_rec(i: usize) -> ScannedRecord {
    let len = 1 + i;
    unsafe { ScannedRecord { sequence: GHOST_SEQ[i], payload: vec![GHOST_PAY[i]; len], total_size: 48 + len as u64 } }
}

// One stub per record count, each building its Vec from a literal (no loop, exact capacity): with a
// push loop CBMC cannot bound the slice iterators in the callers and unwinds them to the limit.
macro_rules! scan_stub_n {
    ($name:ident, $total:expr, [$($i:expr),*]) => {
        scan_stub_n!($name, $total, vec![$(ghost_rec($i)),*]);
    };
    ($name:ident, $total:expr, $v:expr) => {
        pub(super) fn $name(_file: &mut File, offset: u64, size: u64) -> Result<(Vec<ScannedRecord>, u64)> {
            unsafe {
                // always Ok: a stub with an Ok and an Err exit makes CBMC merge the two results and lose the
                // concrete Vec length in the caller (its slice-iterator loops then unwind to the limit);
                // error propagation has its own stub (scan_stub_err) and harnesses
                GHOST_SCAN_ARGS = (offset, size);
                let v: Vec<ScannedRecord> = $v;
                kani::assume($total <= size && GHOST_NEXT <= size);
                Ok((v, GHOST_NEXT))
            }
        }
    };
}
pub(super) fn scan_stub_err(_file: &mut File, offset: u64, size: u64) -> Result<(Vec<ScannedRecord>, u64)> {
    unsafe {
        GHOST_SCAN_ARGS = (offset, size);
    }
    Err(MemvidError::WalCorruption { offset: 0, reason: "stub".into() })
}
scan_stub_n!(scan_stub_0, 0u64, Vec::with_capacity(1));
scan_stub_n!(scan_stub_1, 49u64, [0]);
scan_stub_n!(scan_stub_2, 99u64, [0, 1]);

fn any_scan(n: usize) {
    unsafe {
        GHOST_N = n;
        GHOST_SEQ = kani::any();
        GHOST_PAY = kani::any();
        GHOST_NEXT = kani::any();
        GHOST_SCAN_OK = true;
    }
}

macro_rules! records_after_contract {
    ($name:ident, $n:expr, $next:expr, $stub:ident) => {
        #[kani::proof]
        #[kani::stub(EmbeddedWal::scan_records, $stub)]
        #[kani::stub(<std::fs::File as std::io::Seek>::seek, stub_seek)]
        #[kani::stub(<std::fs::File as std::io::Write>::write, stub_write)]
        #[kani::stub(std::fs::File::sync_all, stub_sync_all)]
        #[kani::unwind(6)]
        fn $name() {
            any_disk();
            any_scan($n);
            // next_head is enumerated per harness (concrete): the sentinel writer allocates a zero tail of
            // region_size - next_head bytes, and a symbolic allocation length makes CBMC diverge
            unsafe {
                GHOST_NEXT = $next;
            }
            let read_only: bool = kani::any();
            let mut wal = wal_with(kani::any(), kani::any(), kani::any(), kani::any(), read_only);
            let old_seq = wal.sequence;
            let cp = wal.checkpoint_sequence;
            let after: u64 = kani::any();
            let use_pending: bool = kani::any();
            let arg = if use_pending { cp } else { after };
            let r = if use_pending { wal.pending_records() } else { wal.records_after(after) };
            let (seqs, pays, next, scan_ok) = unsafe { (GHOST_SEQ, GHOST_PAY, GHOST_NEXT, GHOST_SCAN_OK) };
            assert!(unsafe { GHOST_SCAN_ARGS } == (OFF, SIZE), "the scan covers exactly the log region");
            match r {
                Ok(recs) => {
                    assert!(scan_ok, "a failed scan is reported, not swallowed");
                    // result = scanned records with sequence > arg, in scan order, payloads untouched
                    let mut want = 0usize;
                    let mut i = 0;
                    while i < $n {
                        if seqs[i] > arg {
                            assert!(want < recs.len(), "no pending record is dropped");
                            assert!(recs[want].sequence == seqs[i], "records come back in scan order");
                            assert!(recs[want].payload.len() == 1 + i && recs[want].payload[0] == pays[i], "payload untouched");
                            want += 1;
                        }
                        i += 1;
                    }
                    assert!(recs.len() == want, "no record at or before the requested sequence is reported");
                    // cursors follow the scan
                    let mut pb = 0u64;
                    i = 0;
                    while i < $n {
                        if seqs[i] > cp {
                            pb += 48 + 1 + i as u64;
                        }
                        i += 1;
                    }
                    assert!(wal.pending_bytes == pb, "pending_bytes = total size of records after the checkpoint");
                    assert!(wal.sequence == if $n > 0 { seqs[$n - 1] } else { old_seq }, "sequence = last scanned sequence");
                    assert!(wal.write_head == next, "write_head = end of the scanned log (no modulo)");
                    assert!(wal.checkpoint_sequence == cp, "a scan does not move the checkpoint");
                    kani::cover!($n < 2 || (want > 0 && want < $n), "filter drops some, keeps some (n >= 2)");
                    kani::cover!(want == $n, "everything pending");
                }
                Err(_) => {
                    kani::cover!(!scan_ok, "scan error propagated");
                }
            }
            core::mem::forget(wal);
        }
    };
}
records_after_contract!(wal_records_after_n0_head0, 0, 0, scan_stub_0);
records_after_contract!(wal_records_after_n1_head49, 1, 49, scan_stub_1);
records_after_contract!(wal_records_after_n2_tail, 2, SIZE - 13, scan_stub_2);
records_after_contract!(wal_records_after_n2_full, 2, SIZE, scan_stub_2);

/// A failed scan is reported by records_after / pending_records, never swallowed.  (open's error path drops
/// the cloned File, which calls the foreign function `close`: not checkable under Kani.)
#[kani::proof]
#[kani::stub(EmbeddedWal::scan_records, scan_stub_err)]
#[kani::stub(std::fs::File::try_clone, stub_try_clone)]
#[kani::unwind(6)]
fn wal_scan_error_propagates() {
    let mut wal = wal_with(kani::any(), kani::any(), kani::any(), kani::any(), kani::any());
    let before = (wal.write_head, wal.pending_bytes, wal.sequence, wal.checkpoint_sequence);
    assert!(wal.records_after(kani::any()).is_err(), "records_after reports a failed scan");
    assert!(wal.pending_records().is_err(), "pending_records reports a failed scan");
    assert!(before == (wal.write_head, wal.pending_bytes, wal.sequence, wal.checkpoint_sequence), "cursors untouched by a failed scan");
    core::mem::forget(wal);
}

macro_rules! open_contract {
    ($name:ident, $n:expr, $next:expr, $stub:ident, $ro:expr) => {
        #[kani::proof]
        #[kani::stub(EmbeddedWal::scan_records, $stub)]
        #[kani::stub(<std::fs::File as std::io::Seek>::seek, stub_seek)]
        #[kani::stub(<std::fs::File as std::io::Write>::write, stub_write)]
        #[kani::stub(std::fs::File::sync_all, stub_sync_all)]
        #[kani::stub(std::fs::File::try_clone, stub_try_clone)]
        #[kani::unwind(8)]
        fn $name() {
            any_disk();
            any_scan($n);
            unsafe {
                GHOST_NEXT = $next;
            }
            let before: [u8; DISK] = unsafe { DISK_BYTES };
            let header = Header {
                magic: kani::any(),
                version: kani::any(),
                footer_offset: kani::any(),
                wal_offset: OFF,
                wal_size: SIZE,
                wal_checkpoint_pos: kani::any(),
                wal_sequence: kani::any(),
                toc_checksum: kani::any(),
            };
            // read_only is fixed per harness: on the writable path a failing sentinel write would drop the
            // cloned File (`close` is a foreign function Kani cannot model), so the two modes are separate instances
            let read_only: bool = $ro;
            let f = fake_file();
            let r = if read_only { EmbeddedWal::open_read_only(&f, &header) } else { EmbeddedWal::open(&f, &header) };
            let (seqs, next, scan_ok) = unsafe { (GHOST_SEQ, GHOST_NEXT, GHOST_SCAN_OK) };
            let cp = header.wal_sequence;
            match r {
                Ok(wal) => {
                    assert!(header.wal_size != 0 && scan_ok, "open succeeds only on a non-empty region that scans");
                    assert!(unsafe { GHOST_SCAN_ARGS } == (OFF, SIZE), "the scan covers exactly the region named by the header");
                    assert!(wal.region_offset == OFF && wal.region_size == SIZE && wal.read_only == read_only);
                    assert!(wal.checkpoint_sequence == cp, "checkpoint comes from the header");
                    let mut pb = 0u64;
                    let mut i = 0;
                    while i < $n {
                        if seqs[i] > cp {
                            pb += 48 + 1 + i as u64;
                        }
                        i += 1;
                    }
                    assert!(wal.pending_bytes == pb, "pending_bytes = total size of records after the checkpoint");
                    assert!(wal.sequence == if $n > 0 { seqs[$n - 1] } else { cp }, "sequence = last scanned sequence, else the checkpoint");
                    assert!(wal.write_head == next, "write_head = end of the scanned log (no modulo)");
                    if read_only {
                        let i: usize = kani::any();
                        kani::assume(i < DISK);
                        assert!(unsafe { DISK_BYTES }[i] == before[i], "read-only open writes nothing");
                    }
                    kani::cover!($n == 0 || pb > 0, "pending records found (n >= 1)");
                    core::mem::forget(wal);
                }
                Err(_) => {
                    assert!(false, "open fails although the region scans and the disk works");
                }
            }
            core::mem::forget(f);
        }
    };
}
open_contract!(wal_open_ro_n0_head0, 0, 0, scan_stub_0, true);
open_contract!(wal_open_ro_n1_head49, 1, 49, scan_stub_1, true);
open_contract!(wal_open_ro_n2_tail, 2, SIZE - 1, scan_stub_2, true);
open_contract!(wal_open_rw_n2_head, 2, 99, scan_stub_2, false);
open_contract!(wal_open_rw_n2_full, 2, SIZE, scan_stub_2, false);
open_contract!(wal_open_ro_n1_full, 1, SIZE, scan_stub_1, true);

/// open on a header with wal_size == 0 is rejected before anything is read.
#[kani::proof]
#[kani::unwind(6)]
fn wal_open_rejects_zero_size() {
    let header = Header { magic: kani::any(), version: kani::any(), footer_offset: kani::any(), wal_offset: kani::any(), wal_size: 0,
        wal_checkpoint_pos: kani::any(), wal_sequence: kani::any(), toc_checksum: kani::any() };
    let f = fake_file();
    assert!(EmbeddedWal::open(&f, &header).is_err() && EmbeddedWal::open_read_only(&f, &header).is_err(), "zero-size region rejected");
    core::mem::forget(f);
}

// ---------------------------------------------------------------------------------------------
// A-FILE hand-off for the sentinel writers on real bytes: for EVERY position write_zero_header(pos)
// changes nothing below pos, nothing outside the region, and leaves either a zero header at pos or
// a zero tail shorter than a header (= the `end_marked` postcondition Verus proves over the File
// model, here on the in-memory disk, bit-precise).
macro_rules! zero_header_bytes {
    ($name:ident, $pos:expr) => {
        #[kani::proof]
        #[kani::stub(<std::fs::File as std::io::Seek>::seek, stub_seek)]
        #[kani::stub(<std::fs::File as std::io::Write>::write, stub_write)]
        #[kani::stub(std::fs::File::sync_all, stub_sync_all)]
        #[kani::unwind(52)]
        fn $name() {
            any_disk();
            let before: [u8; DISK] = unsafe { DISK_BYTES };
            let mut wal = wal_with(kani::any(), kani::any(), kani::any(), kani::any(), false);
            let pos: u64 = $pos; // enumerated: the zero tail is allocated with length region_size - pos
            let r = wal.write_zero_header(pos);
            assert!(r.is_ok(), "succeeds when the disk does");
            assert!(r.unwrap() == pos, "the head stays where it is");
            let after: [u8; DISK] = unsafe { DISK_BYTES };
            let i: usize = kani::any();
            kani::assume(i < DISK);
            let lo = (OFF + pos) as usize;
            let hi = if pos + 48 <= SIZE { lo + 48 } else { (OFF + SIZE) as usize };
            if i < lo || i >= hi {
                assert!(after[i] == before[i], "only the sentinel bytes change");
            } else {
                assert!(after[i] == 0, "sentinel bytes are zero");
            }
            core::mem::forget(wal);
        }
    };
}
zero_header_bytes!(wal_zero_header_bytes_pos0, 0);
zero_header_bytes!(wal_zero_header_bytes_pos64, SIZE - 48);
zero_header_bytes!(wal_zero_header_bytes_pos65, SIZE - 47);
zero_header_bytes!(wal_zero_header_bytes_pos111, SIZE - 1);
zero_header_bytes!(wal_zero_header_bytes_pos112, SIZE);

// ---------------------------------------------------------------------------------------------
// A-CODEC (scan side), by layout: scan_records on region images with a CONCRETE record layout (lengths and
// positions fixed per harness; sequences, payload bytes, checksums' inputs and all remaining bytes symbolic)
// returns exactly what the spec scan sp::scan returns for that layout - the records in order with their
// payloads, the end cursor, or an error for a bad checksum / impossible length.  Loop-free hash stand-in
// (payloads <= 4 bytes) and a small unwind bound keep CBMC's drop-glue recursion in check; the fully
// symbolic variant above (wal_scan_matches_spec_*) does not answer within the caps.
// (see zero_disk below for why the disk starts concrete).
// STATUS: only `tiny_region` answers reliably (3 s) and is registered; `empty` needs 92 symbolic bytes and
// times out under load, every layout that contains a record exceeds 400 s - NOT REGISTERED.  scan_records is
// instead PROVED in Verus (verus/walscan.unit) and cross-checked by the bounded native stand-in.
pub(super) fn stub_hash4(data: &[u8]) -> blake3::Hash {
    let mut h = [0u8; 32];
    let n = data.len();
    h[0] = n as u8;
    if n > 0 {
        h[1] = data[0];
    }
    if n > 1 {
        h[2] = data[1];
    }
    if n > 2 {
        h[3] = data[2];
    }
    if n > 3 {
        h[31] = data[3];
    }
    blake3::Hash::from_bytes(h)
}

/// Disk for the layout harnesses: CONCRETE zeros, on which selected bytes are then made symbolic one element
/// at a time.  (Starting from a fully symbolic array and overwriting the steering fields does not work: CBMC
/// then no longer constant-folds the length fields it reads back, allocates a payload of symbolic length and
/// cannot bound std's read_exact loop.)
fn zero_disk() {
    unsafe {
        DISK_BYTES = [0u8; DISK];
        DISK_POS = 0;
        IO_CALLS = 0;
        IO_FAIL_AT = u32::MAX;
    }
}
/// region bytes [a, b) become symbolic
fn sym_range(a: usize, b: usize) {
    let mut i = a;
    while i < b {
        unsafe {
            DISK_BYTES[OFF as usize + i] = kani::any();
        }
        i += 1;
    }
}
/// a well-formed record at region position `c`: symbolic sequence (not 0 in its low byte, so the header can
/// never be the end marker), concrete length, symbolic reserved bytes and payload, VALID checksum
fn plant_record(c: usize, len: usize) {
    sym_range(c, c + 8);
    sym_range(c + 12, c + 16);
    sym_range(c + 48, c + 48 + len);
    unsafe {
        let a = OFF as usize + c;
        let lb = (len as u32).to_le_bytes();
        DISK_BYTES[a + 8] = lb[0];
        DISK_BYTES[a + 9] = lb[1];
        DISK_BYTES[a + 10] = lb[2];
        DISK_BYTES[a + 11] = lb[3];
        let mut p = [0u8; 4];
        let mut i = 0;
        while i < len && i < 4 {
            p[i] = DISK_BYTES[a + 48 + i];
            i += 1;
        }
        let h = stub_hash4(&p[..len]);
        let mut j = 0;
        while j < 32 {
            DISK_BYTES[a + 16 + j] = h.as_bytes()[j];
            j += 1;
        }
    }
}
fn plant_zero_header(c: usize) {
    unsafe {
        let a = OFF as usize + c;
        let mut i = 0;
        while i < 12 {
            DISK_BYTES[a + i] = 0;
            i += 1;
        }
    }
}
fn disk_seq(c: usize) -> u64 {
    unsafe { le64(&DISK_BYTES[OFF as usize + c..OFF as usize + c + 8]) }
}
fn disk_byte(c: usize) -> u8 {
    unsafe { DISK_BYTES[OFF as usize + c] }
}

macro_rules! scan_layout {
    ($name:ident, $size:expr, $setup:block, $check:expr) => {
        #[kani::proof]
        #[kani::stub(<std::fs::File as std::io::Seek>::seek, stub_seek)]
        #[kani::stub(<std::fs::File as std::io::Read>::read, stub_read_bytewise)]
        #[kani::stub(blake3::hash, stub_hash4)]
        #[kani::unwind(50)]
        fn $name() {
            zero_disk();
            $setup;
            let mut f = fake_file();
            let got = EmbeddedWal::scan_records(&mut f, OFF, $size);
            let check: fn(Result<(Vec<ScannedRecord>, u64)>) = $check;
            check(got);
            core::mem::forget(f);
        }
    };
}

fn expect_records(got: Result<(Vec<ScannedRecord>, u64)>, layout: &[(usize, usize)], end: u64) {
    match got {
        Ok((recs, next)) => {
            assert!(recs.len() == layout.len(), "exactly the planted records are returned");
            assert!(next == end, "the end cursor is where the spec scan stops");
            let mut i = 0;
            while i < layout.len() {
                let (c, len) = layout[i];
                assert!(recs[i].sequence == disk_seq(c), "sequence as stored");
                assert!(recs[i].total_size == 48 + len as u64 && recs[i].payload.len() == len, "sizes as stored");
                let mut k = 0;
                while k < len {
                    assert!(recs[i].payload[k] == disk_byte(c + 48 + k), "payload bytes as stored");
                    k += 1;
                }
                i += 1;
            }
        }
        Err(_) => assert!(false, "a well-formed log must scan"),
    }
}

// one valid record, then the region is too short for another header
scan_layout!(wal_scan_layout_one_then_short_tail, 64, { plant_record(0, 3); sym_range(51, 64); }, |g| expect_records(g, &[(0, 3)], 51));
// one valid record that fills the region exactly
scan_layout!(wal_scan_layout_exact_fit, 52, { plant_record(0, 4); }, |g| expect_records(g, &[(0, 4)], 52));
// one valid record, then a zero header (whatever follows it)
scan_layout!(wal_scan_layout_one_then_sentinel, 112, { plant_record(0, 3); sym_range(51 + 12, 112); }, |g| expect_records(g, &[(0, 3)], 51));
// two valid records, then a short tail
scan_layout!(wal_scan_layout_two, 112, { plant_record(0, 3); plant_record(51, 2); sym_range(101, 112); }, |g| expect_records(g, &[(0, 3), (51, 2)], 101));
// zero header at the start: empty log whatever the rest of the region holds
scan_layout!(wal_scan_layout_empty, 112, { sym_range(12, 58); sym_range(58, 104); }, |g| expect_records(g, &[], 0));
// region smaller than a header
scan_layout!(wal_scan_layout_tiny_region, 40, { sym_range(0, 40); }, |g| expect_records(g, &[], 0));
// a record whose checksum differs from the hash of its payload in any one byte is an error
scan_layout!(wal_scan_layout_bad_checksum, 112, {
    plant_record(0, 3);
    let k: usize = kani::any();
    kani::assume(k < 32);
    unsafe { DISK_BYTES[OFF as usize + 16 + k] ^= 0x10; }
}, |g| assert!(g.is_err(), "checksum mismatch is reported"));
// a second record with a bad checksum poisons the scan even after a good first record
scan_layout!(wal_scan_layout_bad_second, 112, {
    plant_record(0, 3);
    plant_record(51, 2);
    unsafe { DISK_BYTES[OFF as usize + 51 + 48] ^= 0x01; }
}, |g| assert!(g.is_err(), "corrupt payload of the second record is reported"));
// a length that does not fit the region is an error (one byte too long), the exact fit is not (above)
scan_layout!(wal_scan_layout_len_too_long, 52, {
    plant_record(0, 4);
    unsafe { DISK_BYTES[OFF as usize + 8] = 5; }
}, |g| assert!(g.is_err(), "record running past the region end is reported"));
// length 0 with a non-zero sequence is an error, not an end marker
scan_layout!(wal_scan_layout_len_zero_seq_nonzero, 112, {
    let s: u8 = kani::any();
    kani::assume(s != 0);
    unsafe { DISK_BYTES[OFF as usize + 3] = s; }
}, |g| assert!(g.is_err(), "zero length with a sequence number is corruption"));
