// Kani harnesses for src/io/time_index.rs (C30 time-index clause, C22).  Bounded by the number of
// entries N (in the harness name); timestamps / frame ids / image bytes are full-domain.
// blake3::Hasher is stubbed (A-HASH): the checksum value plays no role in these obligations.
use super::*;
use std::io::Cursor;

pub(super) fn hasher_new_stub() -> Hasher {
    unsafe { core::mem::zeroed() }
}
pub(super) fn hasher_update_stub<'a>(h: &'a mut Hasher, _d: &[u8]) -> &'a mut Hasher {
    h
}
pub(super) fn hasher_finalize_stub(_h: &Hasher) -> blake3::Hash {
    blake3::Hash::from_bytes([0u8; 32])
}

fn le_key(e: &TimeIndexEntry, f: &TimeIndexEntry) -> bool {
    e.timestamp < f.timestamp || (e.timestamp == f.timestamp && e.frame_id <= f.frame_id)
}

macro_rules! track_roundtrip {
    ($name:ident, $n:expr) => {
        #[kani::proof]
        #[kani::stub(blake3::Hasher::new, hasher_new_stub)]
        #[kani::stub(blake3::Hasher::update, hasher_update_stub)]
        #[kani::stub(blake3::Hasher::finalize, hasher_finalize_stub)]
        #[kani::unwind(20)]
        fn $name() {
            let ts: [i64; $n] = kani::any();
            let ids: [u64; $n] = kani::any();
            let mut entries = [TimeIndexEntry { timestamp: 0, frame_id: 0 }; $n];
            let mut i = 0;
            while i < $n {
                entries[i] = TimeIndexEntry { timestamp: ts[i], frame_id: ids[i] };
                i += 1;
            }
            let original = entries;
            let mut cur = Cursor::new(Vec::<u8>::new());
            let res = append_track(&mut cur, &mut entries);
            let (offset, length, _sum) = match res {
                Ok(v) => v,
                Err(_) => {
                    assert!(false, "append_track on an in-memory writer cannot fail");
                    return;
                }
            };
            assert!(offset == 0 && length == 12 + 16 * $n as u64, "length = 12 + 16 n");
            // sorted by (timestamp, frame_id) ...
            i = 1;
            while i < $n {
                assert!(le_key(&entries[i - 1], &entries[i]), "entries sorted by (timestamp, frame_id)");
                i += 1;
            }
            // ... and a permutation of the input (each original occurs as often as before; n <= 3)
            i = 0;
            while i < $n {
                let mut c_in = 0;
                let mut c_out = 0;
                let mut j = 0;
                while j < $n {
                    if original[j] == original[i] {
                        c_in += 1;
                    }
                    if entries[j] == original[i] {
                        c_out += 1;
                    }
                    j += 1;
                }
                assert!(c_in == c_out, "sorting permutes the entries");
                i += 1;
            }
            // read back exactly those
            let back = read_track(&mut cur, offset, length);
            match back {
                Ok(v) => {
                    assert!(v.len() == $n, "same number of entries");
                    i = 0;
                    while i < $n {
                        assert!(v[i] == entries[i], "entry decodes to what was encoded");
                        i += 1;
                    }
                }
                Err(_) => assert!(false, "read_track rejects a track written by append_track"),
            }
        }
    };
}

/// N = 0 (written without zero-length symbolic arrays, which CBMC handles badly).
#[kani::proof]
#[kani::stub(blake3::Hasher::new, hasher_new_stub)]
#[kani::stub(blake3::Hasher::update, hasher_update_stub)]
#[kani::stub(blake3::Hasher::finalize, hasher_finalize_stub)]
#[kani::unwind(20)]
fn time_track_roundtrip_n0() {
    let mut cur = Cursor::new(Vec::<u8>::new());
    let mut entries: Vec<TimeIndexEntry> = Vec::new();
    match append_track(&mut cur, &mut entries) {
        Ok((offset, length, _)) => {
            assert!(offset == 0 && length == 12);
            match read_track(&mut cur, offset, length) {
                Ok(v) => assert!(v.is_empty()),
                Err(_) => assert!(false, "read_track rejects an empty track written by append_track"),
            }
        }
        Err(_) => assert!(false, "append_track on an in-memory writer cannot fail"),
    }
}
track_roundtrip!(time_track_roundtrip_n1, 1);
track_roundtrip!(time_track_roundtrip_n2, 2);
track_roundtrip!(time_track_roundtrip_n3, 3);

macro_rules! track_rejects {
    ($name:ident, $n:expr) => {
        /// arbitrary image of 12 + 16 N bytes and arbitrary declared length: never panics; accepted only if
        /// magic, length >= 12, length - 12 == 16 * count and the order all hold, and then the entries are
        /// exactly the bytes.
        #[kani::proof]
        #[kani::unwind(20)]
        fn $name() {
            let img: [u8; 12 + 16 * $n] = kani::any();
            let length: u64 = kani::any();
            let mut cur = Cursor::new(img.to_vec());
            let count = u64::from_le_bytes([img[4], img[5], img[6], img[7], img[8], img[9], img[10], img[11]]);
            match read_track(&mut cur, 0, length) {
                Ok(v) => {
                    kani::cover!(true, "some image accepted");
                    assert!(img[0..4] == TIME_INDEX_MAGIC, "accepted only with the magic");
                    assert!(length >= 12, "accepted only with length >= header");
                    assert!(count <= $n as u64 && v.len() as u64 == count, "count entries returned");
                    assert!(length - 12 == 16 * count, "accepted only when length matches count");
                    let mut i = 0;
                    while i < v.len() {
                        let o = 12 + 16 * i;
                        let ts = i64::from_le_bytes([img[o], img[o + 1], img[o + 2], img[o + 3], img[o + 4], img[o + 5], img[o + 6], img[o + 7]]);
                        let id = u64::from_le_bytes([img[o + 8], img[o + 9], img[o + 10], img[o + 11], img[o + 12], img[o + 13], img[o + 14], img[o + 15]]);
                        assert!(v[i].timestamp == ts && v[i].frame_id == id, "entries are exactly the bytes");
                        if i > 0 {
                            assert!(le_key(&v[i - 1], &v[i]), "accepted only when sorted");
                        }
                        i += 1;
                    }
                }
                Err(_) => {
                    kani::cover!(true, "some image rejected");
                }
            }
        }
    };
}
track_rejects!(time_track_rejects_n0, 0);
track_rejects!(time_track_rejects_n1, 1);
track_rejects!(time_track_rejects_n2, 2);
