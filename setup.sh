#!/bin/bash
# MANIFEST.setup_cmd: warm the Kani dependency build (cache only; every check rebuilds the crate
# from /repo's working tree and works, slower, without this cache).  Offline.
set -u
cd "$(dirname "$0")"
export CARGO_NET_OFFLINE=true
mkdir -p evidence replay/out
python3 - <<'PY'
import sys, os
sys.path.insert(0, 'lib')
import kani_run
out = kani_run.run(os.environ.get('VERIF_REPO', '/repo'), 'setup',
                   [{'id': 'footer::verif_kani::footer_size_constant'}], jobs=1, harness_timeout=600)
print('setup: kani warm-up', [o['status'] for o in out.obligations], out.undecided, '%.0fs' % out.wall)
PY
# warm the native test build used by the bounded native stand-in of C05 and by the replay drivers (cache only)
python3 - <<'PY'
import sys, os, time
sys.path.insert(0, 'lib')
import native
t = time.time()
out, err = native._run_driver(os.environ.get('VERIF_REPO', '/repo'), 'wal', None, 0, timeout=2400, extra_env={'VERIF_WAL_MAX_DEPTH': '1'})
import re
m = re.search(r'VERIF-[A-Z-]+[^\n]*', out or '')
print('setup: native warm-up %.0fs %s' % (time.time() - t, (m.group(0)[:120] if m else err)))
PY
# warm the native `cargo kani playback` build used to replay Kani counterexamples on the real code (cache only)
python3 - <<'PY'
import sys, os, time
sys.path.insert(0, 'lib')
import playback
t = time.time()
cex = {'test_name': 'kani_concrete_playback_warm',
       'test_code': '#[test]\nfn kani_concrete_playback_warm() {\n    let concrete_vals: Vec<Vec<u8>> = vec![];\n    kani::concrete_playback_run(concrete_vals, footer_size_constant);\n}\n'}
ok, text = playback.run_native(os.environ.get('VERIF_REPO', '/repo'), 'footer::verif_kani::footer_size_constant', cex, 'setup')
print('setup: playback warm-up %.0fs reproduced=%s %s' % (time.time() - t, ok, text[:100]))
PY
verus --version >/dev/null 2>&1 && echo "setup: verus ok"
exit 0
