#!/bin/bash
# MANIFEST.setup_cmd: warm the Kani dependency build (cache only; every check rebuilds the crate
# from /repo's working tree and works, slower, without this cache).  Offline.
set -u
cd "$(dirname "$0")"
export CARGO_NET_OFFLINE=true
mkdir -p evidence replay/out
python3 - <<'PY'
import sys, os
sys.path.insert(0, 'lib')
import kani_run
out = kani_run.run(os.environ.get('VERIF_REPO', '/repo'), 'setup',
                   [{'id': 'footer::verif_kani::footer_size_constant'}], jobs=1, harness_timeout=600)
print('setup: kani warm-up', [o['status'] for o in out.obligations], out.undecided, '%.0fs' % out.wall)
PY
verus --version >/dev/null 2>&1 && echo "setup: verus ok"
exit 0
