#!/usr/bin/env python3
"""Developer tool (never run by a check): generate one Verus unit from /repo (or $2) and run it; print the outcome."""
import os, sys
V = os.path.dirname(os.path.dirname(os.path.abspath(__file__)))
sys.path.insert(0, os.path.join(V, 'lib'))
import verus_run
unit = sys.argv[1]; repo = sys.argv[2] if len(sys.argv) > 2 else '/repo'
canary = '--canary' in sys.argv
res = verus_run.run_unit(os.path.join(V, 'verus', unit + '.unit'), repo, '/var/tmp/memvid-verif-work/dev-' + unit, canary=canary)
print('gen:', res.gen_path, 'verified', res.verified, 'errors', res.errors, 'secs %.1f' % res.seconds)
print('undecided:', res.undecided_reason)
print('failed:', getattr(res, 'failed', None))
if res.errors or res.undecided_reason: print(res.raw[-6000:])
