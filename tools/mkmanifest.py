#!/usr/bin/env python3
"""Developer tool: regenerate MANIFEST.json from lib/registry.py and tools/not_applicable.json."""
import json, os, sys
V = os.path.dirname(os.path.dirname(os.path.abspath(__file__)))
sys.path.insert(0, os.path.join(V, 'lib'))
import registry
na = json.load(open(os.path.join(V, 'tools', 'not_applicable.json')))
checks = []
for pid, r in sorted(registry.PROPS.items()):
    checks.append({
        'property_id': pid,
        'quick_cmd': './check %s quick' % pid,
        'thorough_cmd': './check %s thorough' % pid,
        'evidence_file': '/verif/evidence/%s.json' % pid,
        'replay_cmd_template': './check %s --replay {path}' % pid,
        'engine': 'contracts',
        'level_claimed': {'category': r['level'], 'text': r['level_text'], 'design_ref': r.get('design_ref', 'DESIGN.md section 3')},
        'level_note': r['level_note'],
        'technique': r['technique'],
    })
m = {
    'version': 1,
    'setup_cmd': './setup.sh',
    'hooks': {
        'guard': 'cfg(kani)',
        'enable': 'no source change in /repo: each check copies the working tree to a scratch dir and applies an add-only overlay there (harness modules appended under #[cfg(kani)], kani contract attributes under #[cfg_attr(kani, ..)], a [patch.crates-io] no-op tracing shim); Verus units are cut out of /repo sources on every run (declared expression rewrites listed in the evidence); the native stand-in and the replay drivers are dropped into tests/ of a scratch copy',
        'baseline_off_cmd': 'cd /repo && cargo test --workspace --no-fail-fast --offline',
        'source_commits': [],
        'add_only': True,
    },
    'engines': [
        {'name': 'contracts', 'path': '/verif/check', 'serves_properties': sorted(registry.PROPS.keys()),
         'kind_free_text': 'contract-based deductive verification of the real code: Verus (requires/ensures/invariants on functions extracted verbatim each run) and Kani function contracts / loop-free full-domain harnesses compiled inside the real crate; bounded Kani harnesses are labelled bounded; one bounded native enumeration stand-in (C05, EmbeddedWal::scan_records converse direction) is labelled as such and never counted as proved'},
    ],
    'checks': checks,
    'notes': 'exit 2 (no VIOLATION line) means undecided: anchor lost, unsupported construct, timeout or memory cap. fix: commits in /repo: 19588ca (C05), 564bc2c (C30/C22), 72f8a48 (C35), 7ea9072 (C37; re-lands 5192d72 after revert 377b627), 172834d (C22/C39), all recorded in known_findings.txt as fixed. ./check selftest runs the mutants and the seeded changes. See DESIGN.md.',
    'not_applicable': [{'property_id': k, 'reason': v[:600]} for k, v in sorted(na.items()) if k not in registry.PROPS],
}
json.dump(m, open(os.path.join(V, 'MANIFEST.json'), 'w'), indent=1)
print('MANIFEST.json: %d checks, %d not_applicable' % (len(checks), len(m['not_applicable'])))
