#!/usr/bin/env python3
"""Cross-check of the `well_formed` predicate used by kani/proofs/lex.rs (Unicode Table 3-7 byte ranges,
all compositions of scalar widths summing to N <= 4) against a strict UTF-8 decoder (Python's, which like
Rust's rejects overlong forms, surrogates and code points above U+10FFFF).
Exhaustive for N <= 3; for N = 4 exhaustive over the first two bytes with the last two drawn from the
boundary values of every range.  Developer tool; prints OK or the first disagreement."""
import itertools
import sys


def cont(b): return 0x80 <= b <= 0xBF
def w1(b, i): return b[i] < 0x80
def w2(b, i): return 0xC2 <= b[i] <= 0xDF and cont(b[i + 1])
def w3(b, i):
    x, y, z = b[i], b[i + 1], b[i + 2]
    return cont(z) and ((x == 0xE0 and 0xA0 <= y <= 0xBF) or (0xE1 <= x <= 0xEC and cont(y)) or (x == 0xED and 0x80 <= y <= 0x9F) or (0xEE <= x <= 0xEF and cont(y)))
def w4(b, i):
    x, y = b[i], b[i + 1]
    return cont(b[i + 2]) and cont(b[i + 3]) and ((x == 0xF0 and 0x90 <= y <= 0xBF) or (0xF1 <= x <= 0xF3 and cont(y)) or (x == 0xF4 and 0x80 <= y <= 0x8F))


SHAPES = {
    0: [lambda b: True],
    1: [lambda b: w1(b, 0)],
    2: [lambda b: w1(b, 0) and w1(b, 1), lambda b: w2(b, 0)],
    3: [lambda b: w1(b, 0) and w1(b, 1) and w1(b, 2), lambda b: w1(b, 0) and w2(b, 1), lambda b: w2(b, 0) and w1(b, 2), lambda b: w3(b, 0)],
    4: [lambda b: all(w1(b, i) for i in range(4)), lambda b: w1(b, 0) and w1(b, 1) and w2(b, 2), lambda b: w1(b, 0) and w2(b, 1) and w1(b, 3),
        lambda b: w2(b, 0) and w1(b, 2) and w1(b, 3), lambda b: w2(b, 0) and w2(b, 2), lambda b: w1(b, 0) and w3(b, 1), lambda b: w3(b, 0) and w1(b, 3), lambda b: w4(b, 0)],
}


def well_formed(b):
    return any(f(b) for f in SHAPES[len(b)])


def strict(b):
    try:
        bytes(b).decode('utf-8', 'strict')
        return True
    except UnicodeDecodeError:
        return False


def main():
    n = 0
    for N in (0, 1, 2, 3):
        for b in itertools.product(range(256), repeat=N):
            n += 1
            if well_formed(b) != strict(b):
                print('DISAGREE', bytes(b).hex()); return 1
    edge = sorted(set([0x00, 0x41, 0x7F, 0x80, 0x8F, 0x90, 0x9F, 0xA0, 0xBF, 0xC0, 0xC1, 0xC2, 0xDF, 0xE0, 0xE1, 0xEC, 0xED, 0xEE, 0xEF, 0xF0, 0xF1, 0xF3, 0xF4, 0xF5, 0xFF]))
    for a in range(256):
        for c in range(256):
            for d in edge:
                for e in edge:
                    b = (a, c, d, e); n += 1
                    if well_formed(b) != strict(b):
                        print('DISAGREE', bytes(b).hex()); return 1
    print('OK: %d byte strings, predicate == strict UTF-8 decoder' % n)
    return 0


if __name__ == '__main__':
    sys.exit(main())
