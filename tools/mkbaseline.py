#!/usr/bin/env python3
"""Developer tool (never run by a check): record the obligations that discharge on the unchanged tree
and the scanned assumptions, per property and tier, into baseline_obligations.json /
assumptions_allow.json.  Usage: tools/mkbaseline.py <ID> [quick|thorough ...]"""
import json, os, sys
V = os.path.dirname(os.path.dirname(os.path.abspath(__file__)))
sys.path.insert(0, V); sys.path.insert(0, os.path.join(V, 'lib'))
import importlib.machinery, importlib.util
loader = importlib.machinery.SourceFileLoader('check', os.path.join(V, 'check'))
spec = importlib.util.spec_from_loader('check', loader); check = importlib.util.module_from_spec(spec); loader.exec_module(check)
prop = sys.argv[1]
tiers = sys.argv[2:] or ['quick']
bp = os.path.join(V, 'baseline_obligations.json'); ap = os.path.join(V, 'assumptions_allow.json')
base = json.load(open(bp)) if os.path.exists(bp) else {}
allow = json.load(open(ap)) if os.path.exists(ap) else {}
base.setdefault(prop, {}); 
# run with no baseline/allow for this prop
saved_b, saved_a = base.get(prop), allow.pop(prop, None)
json.dump({k: v for k, v in base.items() if k != prop}, open(bp, 'w'), indent=1, sort_keys=True)
json.dump(allow, open(ap, 'w'), indent=1, sort_keys=True)
acc = set(saved_a or []) if len(tiers) == 1 and tiers[0] == 'thorough' else set()
for t in tiers:
    rc, ev, obs = check.decide(prop, t, write_evidence=False)
    if rc != 0:
        print('NOT recording %s %s: rc=%d' % (prop, t, rc))
        base = json.load(open(bp)); allow = json.load(open(ap))   # re-read: other properties may have been recorded meanwhile
        base[prop] = saved_b or {}
        json.dump(base, open(bp, 'w'), indent=1, sort_keys=True)
        if saved_a is not None: allow[prop] = saved_a
        json.dump(allow, open(ap, 'w'), indent=1, sort_keys=True); sys.exit(1)
    base[prop][t] = sorted(o['name'] for o in obs)
    acc |= set(a[len('scanned: '):] for a in ev['assumptions'] if a.startswith('scanned: '))
if saved_a and 'quick' not in tiers: acc |= set(saved_a)
# re-read both files before writing: another mkbaseline (for a different property) may have finished meanwhile,
# and dumping the copies loaded at start would silently discard its entries
mine_b = base[prop]
base = json.load(open(bp)); allow = json.load(open(ap))
base[prop] = mine_b
allow[prop] = sorted(acc)
json.dump(base, open(bp, 'w'), indent=1, sort_keys=True)
json.dump(allow, open(ap, 'w'), indent=1, sort_keys=True)
print('recorded', prop, tiers, {t: len(base[prop][t]) for t in tiers}, 'assumptions:', len(allow[prop]))
