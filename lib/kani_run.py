"""Run Kani harnesses on the overlay copy of /repo and map results to named obligations."""
import json
import os
import re
import shutil
import subprocess
import time

import kani_overlay

VERIF = os.path.dirname(os.path.dirname(os.path.abspath(__file__)))
TARGET = os.environ.get('VERIF_KANI_TARGET', '/var/tmp/memvid-verif-kani-target')
WORKROOT = os.environ.get('VERIF_WORK', '/var/tmp/memvid-verif-work')
MEM_KB = int(os.environ.get('VERIF_CBMC_MEM_KB', str(18 * 1024 * 1024)))

# failed-check categories that are tool artefacts rather than refutations
# 'unwind': an unwinding assertion says the bound of the harness was too small for this run - undecided, never a refutation
UNSUPPORTED_CATS = {'unsupported_construct', 'unwind'}
# CBMC's NaN-generation checks ('NaN on multiplication' ...): producing a NaN is not a Rust failure (no panic, no UB)
IGNORED_CATS = {'NaN'}


class KaniOutcome:
    def __init__(self):
        self.obligations = []     # dict(name, backend, status, seconds, detail, checks, covers, bound)
        self.undecided = []       # reasons
        self.applied = None
        self.cmd = ''
        self.log = ''
        self.wall = 0.0
        self.solver_s = 0.0


def _env():
    e = dict(os.environ)
    e['CARGO_TARGET_DIR'] = TARGET
    e['CARGO_NET_OFFLINE'] = 'true'
    e.pop('RUSTUP_TOOLCHAIN', None)
    e.pop('RUSTFLAGS', None)
    return e


def prepare(repo, tag):
    work = os.path.join(WORKROOT, 'kani-' + tag)
    applied = kani_overlay.build(repo, work)
    lock = os.path.join(repo, 'Cargo.lock')
    if os.path.exists(lock):
        shutil.copy(lock, os.path.join(work, 'Cargo.lock'))
    return work, applied


def run(repo, tag, harnesses, jobs=4, harness_timeout=900, total_timeout=None, extra_args=None, ignore_checks=None, mem_kb=None):
    """harnesses: list of dicts {id: 'mod::verif_kani::name', ...}.  Returns KaniOutcome."""
    out = KaniOutcome()
    t0 = time.time()
    try:
        work, applied = prepare(repo, tag)
    except kani_overlay.OverlayError as e:
        out.undecided.append('overlay: %s' % e)
        return out
    out.applied = applied
    js_path = os.path.join(WORKROOT, 'kani-%s.json' % tag)
    log_path = os.path.join(WORKROOT, 'kani-%s.log' % tag)
    for p in (js_path, log_path):
        if os.path.exists(p):
            os.remove(p)
    cmd = ['cargo', 'kani', '-Z', 'function-contracts', '-Z', 'stubbing', '-Z', 'unstable-options',
           '--output-format=terse', '-j', str(jobs), '--exact', '--harness-timeout', '%ds' % harness_timeout,
           '--export-json', js_path]
    for h in harnesses:
        cmd += ['--harness', h['id']]
    cmd += (extra_args or [])
    out.cmd = ' '.join(cmd)
    sh = 'ulimit -v %d; exec %s > %s 2>&1' % (mem_kb or MEM_KB, ' '.join("'%s'" % c for c in cmd), log_path)
    tt = total_timeout or (harness_timeout * (1 + len(harnesses) // max(1, jobs)) + 900)
    try:
        p = subprocess.run(['bash', '-c', sh], cwd=work, env=_env(), timeout=tt)
        rc = p.returncode
    except subprocess.TimeoutExpired:
        rc = -9
        out.undecided.append('cargo kani exceeded total timeout %ds' % tt)
    out.wall = time.time() - t0
    out.log = log_path
    log = open(log_path, errors='replace').read() if os.path.exists(log_path) else ''
    if not os.path.exists(js_path):
        # compile error / ICE / overlay mismatch: undecided
        m = re.search(r'^(error(\[E\d+\])?: [^\n]*)', log, re.M)
        out.undecided.append('kani produced no result file (rc=%s): %s' % (rc, (m.group(1) if m else log[-500:])[:400]))
        return out
    js = json.load(open(js_path))
    results = {r['harness_id']: r for r in js.get('verification_results', {}).get('results', [])}
    pdet = {r['harness_id']: (r.get('property_details') or {}) for r in js.get('property_details', [])}
    cstats = {r['harness_id']: (r.get('cbmc_stats') or {}) for r in js.get('cbmc', [])}
    for h in harnesses:
        hid = h['id']
        ob = {'name': 'kani:' + hid.replace('::verif_kani::', '::'), 'backend': 'kani-cbmc(cadical)',
              'kind': h.get('kind', 'complete'), 'bound': h.get('bound', ''), 'status': 'undecided',
              'seconds': 0.0, 'detail': '', 'failed_checks': [], 'harness_id': hid, 'playback': h.get('playback', True)}
        r = results.get(hid)
        if r is None:
            ob['detail'] = 'harness not found / not run (anchor lost?)'
            out.undecided.append('%s: not run' % hid)
            out.obligations.append(ob)
            continue
        ob['seconds'] = r.get('duration_ms', 0) / 1000.0
        st = cstats.get(hid, {})
        ob['solver_s'] = st.get('runtime_decision_procedure_s', 0.0)
        out.solver_s += ob['solver_s'] or 0.0
        pd = pdet.get(hid, {})
        ob['checks'] = pd.get('total_properties', 0)
        ob['covers_satisfied'] = pd.get('satisfied', 0)
        ob['covers_unsat'] = pd.get('unsatisfiable', 0)
        checks = r.get('checks') or []
        failed = [c for c in checks if c.get('status') in ('Failure', 'FAILURE', 'Failed') and c.get('category') not in IGNORED_CATS]
        ignored_n = sum(1 for c in checks if c.get('status') in ('Failure', 'FAILURE', 'Failed') and c.get('category') in IGNORED_CATS)
        undet = [c for c in checks if c.get('status') in ('Undetermined', 'UNDETERMINED')]
        if ignore_checks:
            failed = [c for c in failed if not any(re.search(pat, (c.get('description') or '') + ' ' + (c.get('function') or '')) for pat in ignore_checks.get(hid, []))]
        real_fail = [c for c in failed if c.get('category') not in UNSUPPORTED_CATS]
        unsup_fail = [c for c in failed if c.get('category') in UNSUPPORTED_CATS]
        status = r.get('status')
        if (status == 'Success' or (ignored_n and not undet and checks)) and not failed:
            if ob['covers_unsat']:
                ob['status'] = 'undecided'
                ob['detail'] = 'vacuity: %d cover properties unsatisfiable' % ob['covers_unsat']
                out.undecided.append('%s: %s' % (hid, ob['detail']))
            else:
                ob['status'] = 'discharged'
        elif real_fail:
            ob['status'] = 'refuted'
            ob['failed_checks'] = [{'description': c.get('description'), 'function': c.get('function'),
                                    'category': c.get('category'),
                                    'location': '%s:%s' % (c.get('location', {}).get('file'), c.get('location', {}).get('line'))}
                                   for c in real_fail[:12]]
            ob['detail'] = '; '.join('%s [%s]' % (c['description'], c['location']) for c in ob['failed_checks'][:4])
        elif ignore_checks and status != 'Success' and not failed and not undet and checks:
            # only ignored artefact checks failed
            ob['status'] = 'discharged'
            ob['detail'] = 'only listed artefact checks failed (A-INPLACE)'
        else:
            why = 'status=%s' % status
            if unsup_fail:
                why += '; reachable unsupported construct: ' + (unsup_fail[0].get('description') or '')[:120]
            if undet:
                why += '; %d undetermined checks' % len(undet)
            if not checks:
                why += '; no checks reported (timeout / memory cap / CBMC crash)'
            ob['detail'] = why
            out.undecided.append('%s: %s' % (hid, why))
        out.obligations.append(ob)
    return out
