"""Run a generated Verus unit and map the verifier's output to named obligations."""
import json
import os
import re
import subprocess
import time

from rustex import ExtractError
import verusgen

# A located `error:` is a REFUTATION only if it is one of Verus' proof-failure messages (no rustc error code).
# Everything else - rustc errors `error[E....]` (the changed code no longer fits the prelude's types), "not
# supported" / "does not yet support" (outside Verus' subset), resource limits - means UNDECIDED (exit 2).
REFUTE_PAT = re.compile(
    r'^error: (postcondition not satisfied|precondition not satisfied|'
    r'(loop )?invariant not satisfied[^\n]*|(loop )?invariant not preserved[^\n]*|'
    r'assertion failed|possible arithmetic underflow/overflow|possible division by zero|'
    r'decreases not satisfied[^\n]*|could not prove termination[^\n]*|'
    r'possible bit shift underflow/overflow|value may be out of range of the target type[^\n]*|'
    r'unable to prove[^\n]*|cannot show invariant holds[^\n]*|'
    r'index out of bounds[^\n]*|possible (slice|array|vector) index out of bounds[^\n]*|'
    r'requires not satisfied[^\n]*|ensures not satisfied[^\n]*|assert_by[^\n]* failed[^\n]*|'
    r'failed (this )?(precondition|postcondition)[^\n]*)', re.M)
ERR_PAT = re.compile(r'^error(\[E\d+\])?: ([^\n]*)\n\s*--> ([^:\n]+):(\d+):(\d+)', re.M)


class VerusResult:
    def __init__(self):
        self.obligations = []   # dicts: name, backend, status(discharged|refuted|undecided), seconds, detail
        self.undecided_reason = None
        self.raw = ''
        self.info = None
        self.verified = 0
        self.errors = 0
        self.seconds = 0.0
        self.gen_path = None


def _fn_table(gen_text):
    """line -> enclosing fn name for every fn in the generated file (spec/proof/exec)."""
    table = []
    for i, l in enumerate(gen_text.split('\n'), 1):
        m = re.match(r'\s*(pub\s+)?(open\s+|closed\s+|uninterp\s+|broadcast\s+)*(spec\s+|proof\s+|exec\s+)?(fn)\s+([A-Za-z_0-9]+)', l)
        if m:
            table.append((i, m.group(5)))
    return table


def _enclosing(table, line):
    name = None
    for ln, n in table:
        if ln <= line:
            name = n
        else:
            break
    return name


def run_unit(unit_path, repo, workdir, canary=False, rlimit=None, timeout=600):
    """Generate + verify.  Returns VerusResult.  Never raises for verifier outcomes."""
    res = VerusResult()
    os.makedirs(workdir, exist_ok=True)
    try:
        text, info = verusgen.generate(unit_path, repo, canary=canary)
    except ExtractError as e:
        res.undecided_reason = 'extractor: %s' % e
        return res
    res.info = info
    unit = info['unit']
    gen = os.path.join(workdir, '%s%s.rs' % (unit, '_canary' if canary else ''))
    open(gen, 'w').write(text)
    res.gen_path = gen
    cmd = ['verus', gen, '--output-json', '--time', '--multiple-errors', '4', '--triggers-mode', 'silent']
    if rlimit:
        cmd += ['--rlimit', str(rlimit)]
    t0 = time.time()
    try:
        p = subprocess.run(cmd, capture_output=True, text=True, timeout=timeout, cwd=workdir)
    except subprocess.TimeoutExpired:
        res.undecided_reason = 'verus timed out after %ds' % timeout
        return res
    res.seconds = time.time() - t0
    res.raw = p.stderr
    res.cmd = ' '.join(cmd)
    try:
        js = json.loads(p.stdout[p.stdout.index('{'):])
    except Exception:
        res.undecided_reason = 'verus produced no JSON (rc=%d): %s' % (p.returncode, p.stderr[-800:])
        return res
    vr = js.get('verification-results', {})
    res.verified = vr.get('verified', 0)
    res.errors = vr.get('errors', 0)
    smt_ms = js.get('times-ms', {}).get('smt', {}).get('total', None)
    res.smt_ms = smt_ms
    if vr.get('encountered-vir-error') or ('verified' not in vr):
        # compile error / unsupported construct in generated text: undecided
        m = ERR_PAT.search(p.stderr)
        res.undecided_reason = 'verus rejected the generated text (not a refutation): %s' % (
            (m.group(2) + ' at line ' + m.group(4)) if m else p.stderr[-600:])
        return res
    table = _fn_table(text)
    fn_ranges = {f['fn']: (f.get('gen_line_start', 0), f.get('gen_line_end', 0)) for f in info['functions'] if not f.get('assumed')}
    failed = {}   # fn name -> list of messages
    other = []
    for m in ERR_PAT.finditer(p.stderr):
        msg, line = m.group(2), int(m.group(4))
        if msg.startswith('aborting due to'):
            continue
        name = None
        for fn, (a, b) in fn_ranges.items():
            if a <= line <= b:
                name = fn
        if name is None:
            name = _enclosing(table, line)
        is_ref = bool(REFUTE_PAT.match('error: ' + msg))
        if 'VERIF-CANARY' in text.split('\n')[line - 1] if 0 < line <= len(text.split('\n')) else False:
            is_ref = True
        if is_ref:
            failed.setdefault(name, []).append('%s (generated line %d: %s)' % (msg, line, text.split('\n')[line - 1].strip()[:140]))
        else:
            other.append('%s at generated line %d' % (msg, line))
    if 'rlimit' in p.stderr.lower() and 'exceeded' in p.stderr.lower():
        other.append('resource limit (rlimit) exceeded')
    if other:
        res.undecided_reason = 'verus reported non-refutation errors: ' + '; '.join(other[:4])
    # named obligations: one per exec/proof fn that verus checks.  We name the extracted functions and
    # the lemmas; count must match verus' own count.
    names = []
    for ln, n in table:
        names.append(n)
    res.failed = failed
    res.fn_names = names
    res.extracted = list(fn_ranges.keys())
    return res
