"""What decides each property: Verus units and Kani harnesses, per tier.

kind: 'complete' = loop-free full-domain harness or unbounded Verus proof (counts as proved);
      'modular'  = proof_for_contract / caller against callee contracts, no length bound;
      'bounded'  = input length enumerated up to the stated bound (never counted as proved).
tier: 'quick' harnesses run in both tiers, 'thorough' only in the thorough tier.
"""

A_TRACE = 'A-TRACE: tracing macros have no effect on program state (no-op shim under Kani; statements erased for Verus)'
A_HASH = 'A-HASH: blake3 is a deterministic total function (uninterpreted in Verus, cheap deterministic stub under Kani); collision resistance is not assumed'
A_FILE = 'A-FILE: a File is a byte array with a cursor (seek sets the cursor, write replaces exactly those bytes, read returns them, sync_all changes nothing); I/O errors may occur at any call and nothing is promised after one'
A_LE = 'A-LE: to_le_bytes/from_le_bytes are inverse and le(0..0)=0 (bit-precise under Kani; axiom_le_zero in Verus)'
A_MEMRCHR = 'A-MEMRCHR: memchr::memrchr returns the last index of the byte or None (assumed contract on the dependency)'
A_TOOLS = 'rustc, Verus 0.2026.09.13 + Z3, Kani 0.68 + CBMC 6.11 (CaDiCaL), and the extractor/overlay scripts under /verif/lib (mitigated by the line-subsequence re-check, canaries and selftest)'
A_ARITH = 'machine arithmetic is checked on the real widths by both tools; range preconditions: wal_size <= 2^62, sequence < u64::MAX, payload length >= 1, slice length <= isize::MAX'

PROPS = {
    'C31': {
        'title': 'Footer scan finds the most recent valid commit',
        'level': 'proof',
        'level_text': 'Unbounded deductive proof (Verus/Z3) of the full C31 postcondition on find_last_valid_footer, extracted verbatim from src/footer.rs on every run: the returned footer is valid (magic, length, TOC hash), no valid footer starts at a higher offset, the TOC slice is exactly the bytes the footer describes, None only if no valid footer exists; termination by decreases. CommitFooter::decode/encode are proved complete by loop-free Kani harnesses over all 56-byte images / all footer values.',
        'level_note': 'Assumed: memrchr contract (dependency), blake3 determinism (hash is an arbitrary predicate, so the result holds for any hash), slice length <= isize::MAX; decode enters Verus through an assumed contract that the Kani harnesses prove on the real function. Trusted: Verus, Z3, Kani, CBMC, the extractor (line-subsequence re-check, vacuity canary).',
        'technique': 'Verus function contract + loop invariant on the extracted real function; Kani full-domain codec harnesses',
        'design_ref': 'DESIGN.md section 3 (C31), Appendix B',
        'verus': ['footer'],
        'kani': [
            {'id': 'footer::verif_kani::footer_roundtrip', 'tier': 'quick', 'kind': 'complete'},
            {'id': 'footer::verif_kani::footer_decode_implies_encode', 'tier': 'quick', 'kind': 'complete'},
            {'id': 'footer::verif_kani::footer_decode_rejects_wrong_length', 'tier': 'quick', 'kind': 'complete'},
            {'id': 'footer::verif_kani::footer_size_constant', 'tier': 'quick', 'kind': 'complete'},
        ],
        'assumptions': [A_MEMRCHR, A_HASH, A_ARITH, A_TOOLS,
                        'A-CODEC(footer): Verus sees CommitFooter::decode/hash_matches through assumed contracts (decode is a function of the bytes and accepts only 56-byte images starting with the magic; hash_matches is a function of footer and TOC bytes); the decode part is proved of the real function by the Kani harnesses footer_decode_implies_encode / footer_decode_rejects_wrong_length'],
        'not_covered': [],
        'search': 'footer',
    },
    'C05': {
        'title': 'Embedded log never loses or resurrects records',
        'level': 'proof',
        'level_text': 'Unbounded deductive proof (Verus/Z3) that every public mutator of EmbeddedWal (append_entry, record_checkpoint, sentinel writers; stats read-only) preserves the representation invariant wf and moves the ghost view pending() = records a scan of the region returns with sequence > checkpoint exactly as the reference list does, for all region sizes, payload sizes and histories (invariant, no bound); rejected appends leave the object unchanged. Functions are extracted verbatim from src/io/wal.rs on every run.',
        'level_note': 'Assumed: File model (A-FILE), write_record byte layout (A-CODEC, external_body), blake3 determinism, le-bytes axiom, range preconditions (wal_size <= 2^62, sequence < u64::MAX, payload >= 1 byte). The scan side (scan_records/records_after/open_internal are iterator chains Verus cannot take) is tied to the spec scan by Kani harnesses where present in the obligation list; otherwise by assumption. Callers in mutation.rs are not under contract.',
        'technique': 'Verus data-structure invariant + ghost view over the extracted real methods',
        'design_ref': 'DESIGN.md section 3 (C05), Appendix A',
        'verus': ['wal'],
        'kani': [],
        'assumptions': [A_FILE, A_HASH, A_LE, A_TRACE, A_ARITH, A_TOOLS],
        'not_covered': [],
        'search': 'wal',
    },
}
