"""What decides each property: Verus units and Kani harnesses, per tier.

kind: 'complete' = loop-free full-domain harness or unbounded Verus proof (counts as proved);
      'modular'  = proof_for_contract / caller against callee contracts, no length bound;
      'bounded'  = input length enumerated up to the stated bound (never counted as proved).
tier: 'quick' harnesses run in both tiers, 'thorough' only in the thorough tier.
"""

A_TRACE = 'A-TRACE: tracing macros have no effect on program state (no-op shim under Kani; statements erased for Verus)'
A_HASH = 'A-HASH: blake3 is a deterministic total function (uninterpreted in Verus, cheap deterministic stub under Kani); collision resistance is not assumed'
A_FILE = 'A-FILE: a File is a byte array with a cursor (seek sets the cursor, write replaces exactly those bytes, read returns them, sync_all changes nothing); I/O errors may occur at any call and nothing is promised after one'
A_LE = 'A-LE: to_le_bytes/from_le_bytes are inverse and le(0..0)=0 (bit-precise under Kani; axiom_le_zero in Verus)'
A_MEMRCHR = 'A-MEMRCHR: memchr::memrchr returns the last index of the byte or None (assumed contract on the dependency)'
A_TOOLS = 'rustc, Verus 0.2026.09.13 + Z3, Kani 0.68 + CBMC 6.11 (CaDiCaL), and the extractor/overlay scripts under /verif/lib (mitigated by the line-subsequence re-check, canaries and selftest)'
A_ARITH = 'machine arithmetic is checked on the real widths by both tools; range preconditions: wal_size <= 2^62, sequence < u64::MAX, payload length >= 1, slice length <= isize::MAX'



def H(mod, name, tier='quick', kind='complete', bound='', playback=True):
    # playback=False: the harness relies on stubs / contract replacement, which do not exist in a native
    # run; its refutations are replayed through the native search drivers instead (lib/native.py)
    return {'id': '%s::verif_kani::%s' % (mod, name), 'tier': tier, 'kind': kind, 'bound': bound, 'playback': playback}


HDR, FTR, TIX, SKT, WAL, LEX, ADP, VEC = ('io::header', 'footer', 'io::time_index', 'types::sketch_track', 'io::wal', 'lex',
                                          'types::adaptive', 'vec')
A_KANI_STUBS = 'Kani stubs replace only dependency / OS functions (File seek/write/read/sync_all/try_clone, blake3) by the models stated in A-FILE / A-HASH; every memvid function on the path runs as compiled from /repo'

PROPS = {
    'C31': {
        'title': 'Footer scan finds the most recent valid commit',
        'level': 'proof',
        'level_text': 'Unbounded deductive proof (Verus/Z3) of the full C31 postcondition on find_last_valid_footer, extracted verbatim from src/footer.rs on every run: the returned footer is valid (magic, length, TOC hash), no valid footer starts at a higher offset, the TOC slice is exactly the bytes the footer describes, None only if no valid footer exists; termination by decreases. CommitFooter::decode/encode are proved complete by loop-free Kani harnesses over all 56-byte images / all footer values.',
        'level_note': 'Assumed: memrchr contract (dependency), blake3 determinism (hash is an arbitrary predicate, so the result holds for any hash), slice length <= isize::MAX; decode enters Verus through an assumed contract that the Kani harnesses prove on the real function. Trusted: Verus, Z3, Kani, CBMC, the extractor (line-subsequence re-check, vacuity canary).',
        'technique': 'Verus function contract + loop invariant on the extracted real function; Kani full-domain codec harnesses',
        'design_ref': 'DESIGN.md section 3 (C31), Appendix B',
        'verus': ['footer'],
        'kani': [
            {'id': 'footer::verif_kani::footer_roundtrip', 'tier': 'quick', 'kind': 'complete'},
            {'id': 'footer::verif_kani::footer_decode_implies_encode', 'tier': 'quick', 'kind': 'complete'},
            {'id': 'footer::verif_kani::footer_decode_rejects_wrong_length', 'tier': 'quick', 'kind': 'complete'},
            {'id': 'footer::verif_kani::footer_size_constant', 'tier': 'quick', 'kind': 'complete'},
            H(FTR, 'footer_hash_matches_l1', 'quick', 'bounded', 'TOC of exactly 1 byte (loop is in the hash stub; hash_matches itself is loop-free)', playback=False),
            H(FTR, 'footer_hash_matches_l5', 'quick', 'bounded', 'TOC of exactly 5 bytes', playback=False),
        ],
        'assumptions': [A_MEMRCHR, A_HASH, A_ARITH, A_TOOLS,
                        'A-CODEC(footer): Verus sees CommitFooter::decode/hash_matches through assumed contracts (decode is a function of the bytes and accepts only 56-byte images starting with the magic; hash_matches is a function of footer and TOC bytes); the decode part is proved of the real function by the Kani harnesses footer_decode_implies_encode / footer_decode_rejects_wrong_length'],
        'not_covered': [],
        'search': 'footer',
    },
    'C05': {
        'title': 'Embedded log never loses or resurrects records',
        'level': 'proof',
        'level_text': 'Write side: unbounded deductive proof (Verus/Z3) that every public mutator of EmbeddedWal (append_entry, record_checkpoint, sentinel writers, and write_record itself; stats read-only) preserves the representation invariant wf and moves the ghost view pending() = records a scan of the region returns with sequence > checkpoint exactly as the reference list does, for all region sizes, payload sizes and histories (invariant, no bound); rejected appends leave the object unchanged. Functions are extracted verbatim from src/io/wal.rs on every run. Scan side: scan_records itself is proved in Verus (walscan unit, unbounded: a successful scan is exactly the spec scan of the region). Its callers (BOUNDED, Kani, modular): records_after / pending_records / open / open_read_only return exactly the scanned records with sequence above the requested one, in order, payloads untouched, and set sequence / pending_bytes / write_head / checkpoint_sequence from the scan (0, 1, 2 scanned records with symbolic sequences and payload bytes) - verified against the contract of scan_records; write_record and write_zero_header are checked bit-precisely on an in-memory disk for enumerated lengths / positions.',
        'level_note': 'Level proof refers to the write-side protocol (the invariant over all histories) and to scan_records (Verus, with four declared expression rewrites); the callers of scan_records (records_after / open) are bounded and modular (Kani, <= 2 records), and one bounded native stand-in covers the converse direction of the scan. Also assumed: File model (A-FILE), blake3 determinism, le-bytes axiom, range preconditions (wal_size <= 2^62, sequence < u64::MAX, payload >= 1 byte). Callers in mutation.rs are not under contract.',
        'technique': 'Verus data-structure invariant + ghost view over the extracted real methods (incl. write_record and scan_records); Kani modular harnesses (callee contract stubs) for the callers of the scan; one labelled bounded native enumeration stand-in',
        'design_ref': 'DESIGN.md section 3 (C05), Appendix A',
        'verus': ['wal', 'walscan'],
        'kani': [
            H(WAL, 'write_record_contract_len1_pos0', 'quick', 'bounded', 'payload 1 byte at position 0', playback=False),
            H(WAL, 'write_record_contract_len2_pos3', 'quick', 'bounded', 'payload 2 bytes at position 3', playback=False),
            H(WAL, 'write_record_contract_len7_pos57', 'quick', 'bounded', 'payload 7 bytes at position 57 (exact fit)', playback=False),
            H(WAL, 'write_record_contract_len64_pos0', 'thorough', 'bounded', 'payload 64 bytes (fills the region)', playback=False),
            H(WAL, 'write_record_contract_len1_pos63', 'thorough', 'bounded', 'payload 1 byte at position 63 (exact fit)', playback=False),
            H(WAL, 'write_record_read_only', 'quick', 'bounded', 'payload 2 bytes', playback=False),
            H(WAL, 'wal_zero_header_bytes_pos0', 'quick', 'bounded', 'position 0', playback=False),
            H(WAL, 'wal_zero_header_bytes_pos64', 'quick', 'bounded', 'position size-48 (last full header)', playback=False),
            H(WAL, 'wal_zero_header_bytes_pos65', 'quick', 'bounded', 'position size-47 (short tail)', playback=False),
            H(WAL, 'wal_zero_header_bytes_pos111', 'thorough', 'bounded', 'position size-1', playback=False),
            H(WAL, 'wal_zero_header_bytes_pos112', 'quick', 'bounded', 'position size (empty tail)', playback=False),
            H(WAL, 'wal_records_after_n0_head0', 'quick', 'bounded', '0 scanned records', playback=False),
            H(WAL, 'wal_records_after_n1_head49', 'quick', 'bounded', '1 scanned record', playback=False),
            H(WAL, 'wal_records_after_n2_tail', 'quick', 'bounded', '2 scanned records, head in the short tail', playback=False),
            H(WAL, 'wal_records_after_n2_full', 'thorough', 'bounded', '2 scanned records, head at the region end', playback=False),
            H(WAL, 'wal_scan_error_propagates', 'thorough', 'bounded', 'failing scan', playback=False),
            H(WAL, 'wal_scan_layout_tiny_region', 'quick', 'bounded', 'region 40 (< one header), all bytes symbolic', playback=False),
            H(WAL, 'wal_open_rejects_zero_size', 'quick', 'complete', '', playback=False),
            H(WAL, 'wal_open_ro_n0_head0', 'quick', 'bounded', '0 scanned records, read-only', playback=False),
            H(WAL, 'wal_open_ro_n1_head49', 'quick', 'bounded', '1 scanned record, read-only', playback=False),
            H(WAL, 'wal_open_ro_n2_tail', 'quick', 'bounded', '2 scanned records, read-only', playback=False),
            H(WAL, 'wal_open_rw_n2_head', 'quick', 'bounded', '2 scanned records, writable', playback=False),
            H(WAL, 'wal_open_rw_n2_full', 'quick', 'bounded', '2 scanned records, log ends exactly at the region end, writable', playback=False),
            H(WAL, 'wal_open_ro_n1_full', 'thorough', 'bounded', '1 scanned record, log ends exactly at the region end, read-only', playback=False),
        ],
        # Bounded native stand-in for the one function neither verifier reaches (scan_records on real bytes)
        'native': [{'name': 'native:wal::scan_and_history_enumeration', 'driver': 'wal',
                    'env': {'VERIF_WAL_MAX_DEPTH': {'quick': '2', 'thorough': '3'}},
                    'bound': {'quick': 'NATIVE, BOUNDED: every append/checkpoint/reopen/stats history of depth <= 2 over regions {96,100,144,160,200,256} with 10 edge payload sizes, against a reference list; plus A-CODEC(scan): well-formed region images with 0-3 records over 5 region sizes and every single-byte corruption of them (3 masks), read-only open + pending_records against an executable copy of sp::scan',
                              'thorough': 'as quick, histories to depth 3'}}],
        # A-INPLACE: std's in-place `collect` (IntoIter<ScannedRecord> -> Vec<WalRecord>, 40-byte to 32-byte
        # elements) makes Kani's allocator model report layout / size mismatches inside std; those checks are
        # excluded for the harnesses that reach records_after, and only those
        'ignore_checks': {('io::wal::verif_kani::' + h): [r'__rust_dealloc', r'unchecked_mul', r'in_place_collect']
                          for h in ('wal_records_after_n0_head0', 'wal_records_after_n1_head49', 'wal_records_after_n2_tail',
                                    'wal_records_after_n2_full', 'wal_scan_error_propagates')},
        'assumptions': [A_FILE, A_HASH, A_LE, A_TRACE, A_ARITH, A_TOOLS, A_KANI_STUBS,
                        'A-CODEC(write): PROVED in the wal Verus unit: write_record writes exactly the record image (rec_written: sequence, length, checksum of the payload, payload; nothing else changes) for every payload length and position. Three declared statement rewrites (E7r): the `header[a..b].copy_from_slice(&X.to_le_bytes())` / `copy_from_slice(digest.as_bytes())` statements become put_le64 / put_le32 / put_sum with assumed store-little-endian specs (A-LE); those very statements are cross-checked bit-precisely on the real function by kani:io::wal::write_record_contract_* for the enumerated payload lengths / positions',
                        'A-CODEC(scan): PROVED in the walscan Verus unit (unbounded, loop invariant scan_split): a successful scan_records IS the spec scan sp::scan of the region (same records in order, same payload bytes, same end cursor) and succeeds only if the spec scan accepts the region; bytes of the file are not changed; no overflow / out-of-range index; terminates. The extraction applies four declared expression rewrites (E7r, listed in the evidence): the two from_le_bytes(..try_into().map_err(|_| ..)?) header parses become le64_at / le32_at with assumed little-endian specs (A-LE; the map_err branches are dead because the slices have the exact length), usize::try_from(length) becomes `length as usize` (A-ARCH: 64-bit target), and `a != b` on byte slices becomes !bytes_eq(a, b) (slice equality is element-wise). The converse direction (a region the spec scan accepts is not rejected, absent I/O errors) is not expressible because of the `?`/From limit and is covered by the BOUNDED NATIVE STAND-IN native:wal::scan_and_history_enumeration (never counted as proved)',
                        'A-SCANSTUB: records_after / pending_records / open are verified against the contract of scan_records (a stub returning any result the contract allows for 0, 1 or 2 records)',
                        'A-INPLACE: allocator-model artefacts of std in-place collect are excluded for the records_after harnesses (listed in evidence)'],
        'not_covered': ['deductive proof that scan_records never rejects a region the spec scan accepts (bounded native stand-in only)', 'the error path of open under Kani (drops a File: foreign function close; covered by the native histories)',
                        'callers in mutation.rs (WAL growth, persisting the header after a checkpoint): that is C01, not claimed'],
        'search': 'wal',
    },

    'C30': {
        'title': 'File-format codecs round-trip and reject malformed input',
        'level': 'model_checking',
        'level_text': 'Header and commit-footer codecs: complete proofs (Kani/CBMC, loop-free harnesses over ALL header values, ALL 4096-byte images, ALL footer values, ALL 56-byte images, compiled inside the real crate): decode(encode(v)) == v, encode rejects exactly the invalid headers, an accepted image is the canonical encoding of the value returned (so a wrong magic/version/spec/wal_offset/wal_size is rejected and no different value is returned). Time index, read side: read_track is PROVED in Verus without bound (timeindex unit; generic reader instantiated with the File model, five declared expression rewrites): Ok(v) only if the magic matches, length >= 12 and length - 12 == 16 * count, and then v holds exactly the count entries the bytes encode, in order, sorted by (timestamp, frame_id) - no truncation, nothing invented; file bytes unchanged; terminates. Time index, write side: append_track is PROVED in Verus without bound (timeindexw unit; generic writer instantiated with the File model; the sort_by_key call is replaced by a stand-in with the assumed specification "permutation ordered by (timestamp, frame_id)", A-SORT, and four to_le_bytes / for-header rewrites are declared): the image written at the returned (offset, length) is the magic, the entry count and every entry of the sorted slice in order, length = 12+16n, nothing below the offset is disturbed, the returned checksum is the hash of exactly those bytes; lemma_read_after_append combines this with the postcondition of read_track: whatever read_track accepts there is the sorted list itself (round trip for every n). The real sort call and the end-to-end round trip on real bytes are additionally executed BOUNDED (n <= 3 entries, every i64/u64 value): append_track sorts by (timestamp, frame_id), permutes, length = 12+16n, read_track returns exactly those; an arbitrary image of 12+16n bytes with an arbitrary declared length is accepted only with the right magic, length and order, and never panics. read_toc (Verus, unbounded, over the File model): a TOC is returned only if the trailing 56 bytes decode as a footer whose toc_len equals the length of the bytes between header.footer_offset and the footer, whose hash matches those bytes, and which pass verify_toc_prefix - i.e. inconsistent length / checksum fields are rejected on the header-directed read path. TOC: only the decision logic of Toc::verify_checksum is verified (modular, encoders and hash replaced by ghost functions): the stored checksum is accepted iff it is the digest of a zero-checksum encoding in a format that covers every optional field present (current; V2 only without replay_manifest; V1 only without memories_track and replay_manifest). Toc::encode / decode themselves (serde/bincode) are NOT covered.',
        'level_note': 'Level is model_checking because the TOC codec is covered only in the decision logic of verify_checksum (serde-derived bincode visitors over String/BTreeMap are outside both tools). The header/footer parts are complete (no bound). blake3::Hasher is stubbed in the time-index harnesses (the checksum value plays no role in these obligations).',
        'technique': 'Kani loop-free full-domain codec harnesses (complete) inside the real crate; Verus contracts on the extracted read_toc and read_track (unbounded); Verus contract on the extracted append_track (unbounded, sort call by assumed specification) + round-trip lemma over the two contracts; bounded Kani harnesses executing the real sort and round trip; Kani modular harness for the TOC checksum decision',
        'design_ref': 'DESIGN.md section 3 (C30)',
        'verus': ['readtoc', 'timeindex', 'timeindexw'],
        'kani': [
            H(HDR, 'header_encode_decode_roundtrip'), H(HDR, 'header_decode_implies_encode'), H(HDR, 'header_clear_legacy_lock'),
            H(FTR, 'footer_roundtrip'), H(FTR, 'footer_decode_implies_encode'), H(FTR, 'footer_decode_rejects_wrong_length'),
            H(TIX, 'time_track_roundtrip_n0', 'quick', 'bounded', '0 entries'),
            H(TIX, 'time_track_roundtrip_n1', 'quick', 'bounded', '1 entry, all i64/u64 values'),
            H(TIX, 'time_track_roundtrip_n2', 'quick', 'bounded', '2 entries, all i64/u64 values'),
            H(TIX, 'time_track_roundtrip_n3', 'thorough', 'bounded', '3 entries, all i64/u64 values'),
            H(TIX, 'time_track_rejects_n0', 'quick', 'bounded', 'all 12-byte images, any declared length'),
            H(TIX, 'time_track_rejects_n1', 'thorough', 'bounded', 'all 28-byte images, any declared length'),
            H('toc', 'toc_verify_checksum_decision', 'quick', 'modular', '', playback=False),
        ],
        'assumptions': [A_HASH, A_LE, A_TRACE, A_TOOLS, A_KANI_STUBS, A_FILE,
                        'A-ARCH: 64-bit target (usize is 8 bytes) in the readtoc unit',
                        'A-TOC: Toc::decode is a function of the bytes (external_body in the readtoc unit; serde/bincode is not verified)',
                        'A-TOCENC: in toc_verify_checksum_decision the three bincode encoders and blake3 are replaced by ghost functions that keep the format tag, a digest of the optional fields the format covers, and whether the checksum field was zeroed (the encoders themselves are not verified)',
                        'std::io::Cursor<Vec<u8>> stands for the file in the time-index harnesses (real std code, not a stub)',
                        'A-SORT: in the timeindexw unit `entries.sort_by_key(|entry| (entry.timestamp, entry.frame_id))` is replaced (declared rewrite, exact text) by a stand-in whose assumed specification is: same length, same multiset, ordered by (timestamp, frame_id); a change of the key or of the call loses the anchor (undecided) and is decided by the bounded Kani harnesses time_track_roundtrip_n*, which run the real call'],
        'not_covered': ['TOC: Toc::encode / decode (serde-derived bincode with legacy fall-backs, trailing-bytes rejection) - no contract within reach of Verus or CBMC; only the checksum decision logic is covered',
                        'the std sort inside append_track for more than 3 entries (A-SORT: assumed to leave a permutation ordered by the key; the real call is executed only in the bounded Kani harnesses)', 'that read_track ACCEPTS what append_track wrote (acceptance is not expressible: the File model may fail any read; bounded Kani round trip n <= 3 only)', 'calculate_checksum (not on the codec path)'],
        'search': {},
    },
    'C39': {
        'title': 'Sketch term filter has no false negatives; sketch track round-trips',
        'level': 'model_checking',
        'level_text': 'Term filter, PROVED without bound (Verus, termfilter unit, both functions extracted from src/types/sketch_track.rs on every run): build_term_filter(hs, size) returns a filter of size bytes in which contains(filter, h) holds for EVERY h of the list, for every list length, every 64-bit hash and every size in 1..2^28; term_filter_maybe_contains(filter, h) returns exactly contains(filter, h); lemma_no_false_negative joins the two contracts into the first clause of C39. (Loop invariant over the slice iterator; setting a bit keeps every other bit - two bit-vector lemmas; declared rewrites: the three usize::try_from(..).unwrap_or(0) conversions become `as usize`, A-ARCH, and `for &hash in token_hashes` gets a named iterator.) The same clause is also executed bit-precisely by Kani on the real functions: for hash lists of exactly n <= 6 hashes (n <= 3 quick), EVERY 64-bit hash value, every supported filter size (16/32/64 bytes) and every index i, term_filter_maybe_contains(build_term_filter(hs, size), hs[i]) holds (Kani/CBMC on the real functions; BOUNDED by n); term_filter_maybe_contains is monotone in the filter for all 16-byte filters and all hashes (complete); empty/full filter extremes (complete). Entry and header codecs (SketchEntrySmall/Medium, SketchTrackHeader): complete loop-free round-trip proofs over all values / all images.',
        'level_note': 'The filter clause is proved without bound in Verus; the Kani instances of it are bounded in the number of token hashes and kept as a bit-precise cross-check of the declared rewrites. Level stays model_checking because the whole-track clause is decided only through the entry/header codecs. The tokenizer -> compute_token_weights -> hash_token chain (NFKC, HashMap, blake3) that feeds build_term_filter is ASSUMED to hand every produced token hash to build_term_filter (A-TOKCHAIN, unchecked). The whole-track clause (write_sketch_track/read_sketch_track through HashMap<FrameId,_>) is covered only through the entry/header codecs; see not_covered and known_findings.txt.',
        'technique': 'Verus contracts + loop invariant on the extracted build_term_filter / term_filter_maybe_contains (unbounded) with a no-false-negative lemma over the two contracts; Kani bounded harnesses (filter, bit-precise cross-check) + loop-free full-domain codec harnesses (complete) inside the real crate; Verus totality contract on the extracted read_sketch_track',
        'design_ref': 'DESIGN.md section 3 (C39)',
        'verus': ['sketchread', 'termfilter'],
        'kani': [
            H(SKT, 'filter_no_false_negative_n1', 'quick', 'bounded', '1 hash'), H(SKT, 'filter_no_false_negative_n2', 'quick', 'bounded', '2 hashes'),
            H(SKT, 'filter_no_false_negative_n3', 'quick', 'bounded', '3 hashes'), H(SKT, 'filter_no_false_negative_n4', 'thorough', 'bounded', '4 hashes'),
            H(SKT, 'filter_no_false_negative_n6', 'thorough', 'bounded', '6 hashes'),
            H(SKT, 'filter_long_list_last_16', 'quick', 'bounded', '129 hashes (128 concrete + the last symbolic), 16-byte filter'),
            H(SKT, 'filter_long_list_first_16', 'quick', 'bounded', '129 hashes (the first symbolic + 128 concrete), 16-byte filter'),
            H(SKT, 'filter_contains_monotone_16'), H(SKT, 'filter_contains_extremes'),
            H(SKT, 'sketch_small_roundtrip'), H(SKT, 'sketch_small_bytes_roundtrip'), H(SKT, 'sketch_medium_roundtrip'),
            H(SKT, 'sketch_header_roundtrip'), H(SKT, 'sketch_header_rejects_bad_magic'),
            H(SKT, 'sketch_entry_small_bytes_roundtrip'), H(SKT, 'sketch_entry_medium_bytes_roundtrip'),
        ],
        'assumptions': [A_TOOLS, A_TRACE, 'A-ARCH: 64-bit target (usize::try_from(u64) cannot fail, so `.unwrap_or(0)` is dead) in the termfilter unit', 'A-TOKCHAIN: every token produced by the sketch tokenizer reaches build_term_filter as hash_token(token) (unchecked: string tables, HashMap, blake3)',
                        'filter_size_bytes is one of 16/32/64 (SketchVariant::term_filter_size); size 0 would divide by zero and is outside the property'],
        'not_covered': ['tokenize_for_sketch / compute_token_weights / hash_token chain (A-TOKCHAIN)', 'filter sizes of 0 bytes (division by zero; precondition - callers pass 16/32/64) and above 2^28 bytes'],
        'search': {},
    },
    'C13': {
        'title': 'Vector search returns the exact nearest neighbours',
        'level': 'model_checking',
        'level_text': 'BOUNDED (exactly m <= 6 documents, m <= 5 quick; every distance value, every frame id, every k): VecIndex::search on the Uncompressed (brute-force) representation returns min(k, m) hits, in non-decreasing distance, each hit carrying its own document id and distance, no document twice, and no omitted document strictly closer than the last hit; an empty query returns nothing. l2_distance is replaced by its contract (some non-NaN f32 >= 0 per document).',
        'level_note': 'Brute-force path only. NOT covered: the dimension check in Memvid::search_vec, identity of results after close/reopen, HNSW / PQ representations (feature-gated or approximate by construction), and the float definition of the distance (that is C38).',
        'technique': 'Kani bounded harnesses on the real VecIndex::search with l2_distance replaced by its contract',
        'design_ref': 'DESIGN.md section 3 (C13)',
        'verus': [],
        'kani': [H(VEC, 'search_exact_m%d' % m, 'quick' if m <= 5 else 'thorough', 'bounded', '%d document%s' % (m, '' if m == 1 else 's'), playback=False) for m in range(0, 7)] +
                [H(VEC, 'search_empty_query', 'quick', 'bounded', '1 document', playback=False)],
        'assumptions': [A_TOOLS, A_TRACE, 'A-L2: l2_distance(query, doc) is a total function of the document returning a non-NaN value >= 0 (contract stub; its float definition is C38, not claimed)'],
        'not_covered': ['Memvid::search_vec dimension validation', 'results after close and reopen', 'HNSW / product-quantised representations', 'more than 6 documents (bounded)'],
        'search': 'vec',
    },

    'C37': {
        'title': 'Adaptive retrieval cut-off respects its bounds',
        'level': 'model_checking',
        'level_text': 'BOUNDED in the list length (n <= 5; n <= 3 quick), every finite f32 score, every min_results, every finite parameter (Kani/CBMC, floats bit-precise, inside the real crate). Helper contracts proved on the real helpers: find_absolute_cutoff satisfies min(min_results,n) <= r <= n, every kept result beyond min_results has score >= t, and the result just after the cut is < t; find_cliff_cutoff / find_combined_cutoff / find_elbow_cutoff satisfy the bound clause. find_adaptive_cutoff is verified MODULARLY against those contracts (helpers replaced by contract stubs that assert the precondition and return any value the postcondition allows): bound clause for every strategy, threshold clause for Absolute / Relative on the list the function actually used, threshold = configured value resp. top score x ratio. Normalisation: normalize_scores yields values in [0,1] with the maximum mapped to 1 for every list of n <= 3 scores drawn from a table of 12 extreme f32 values (exhaustive over the table).',
        'level_note': 'Bounded by list length. The normalisation clause is decided only on the 12-value table (range overflow, ties, denormals, signs, 2^24+1); for fully symbolic scores the f64 division gives no answer within the caps even at n = 2 (kept in the thorough tier only as far as it answers). In dispatcher harnesses with normalize_scores = true, normalize_scores is replaced by an assumed contract (same length, finite values).',
        'technique': 'Kani bounded harnesses: helper contracts proved per function, dispatcher verified against contract stubs (modular)',
        'design_ref': 'DESIGN.md section 3 (C37)',
        'verus': [],
        'kani': (
            [H(ADP, 'absolute_contract_n%d' % n, 'quick' if n <= 3 else 'thorough', 'bounded', '%d scores' % n) for n in range(0, 6)] +
            [H(ADP, 'cliff_contract_n%d' % n, 'quick' if n <= 3 else 'thorough', 'bounded', '%d scores' % n) for n in range(0, 5)] +
            [H(ADP, 'combined_contract_n%d' % n, 'quick' if n <= 3 else 'thorough', 'bounded', '%d scores' % n) for n in range(0, 5)] +
            [H(ADP, 'elbow_contract_n%d' % n, 'quick' if n <= 2 else 'thorough', 'bounded', '%d scores' % n) for n in range(1, 5)] +
            [H(ADP, n, t, 'bounded', b, playback=False) for n, t, b in [
                ('dispatch_empty', 'quick', '0 scores'),
                ('dispatch_absolute_n3_raw', 'quick', '3 scores'), ('dispatch_cliff_n3_raw', 'quick', '3 scores'),
                ('dispatch_elbow_n3_raw', 'quick', '3 scores'), ('dispatch_combined_n3_raw', 'quick', '3 scores'),
                ('dispatch_absolute_n3_norm', 'quick', '3 scores'), ('dispatch_combined_n3_norm', 'quick', '3 scores'),
                ('dispatch_relative_table_n3_raw', 'quick', '3 scores, ratio from {0, 0.25, 0.5, 0.75, 1}'),
                ('dispatch_relative_table_n3_norm', 'quick', '3 scores, ratio from {0, 0.25, 0.5, 0.75, 1}'),
                ('dispatch_relative_table_n5_raw', 'thorough', '5 scores, ratio from {0, 0.25, 0.5, 0.75, 1}'),
                ('dispatch_absolute_n1_raw', 'quick', '1 score'), ('dispatch_absolute_n5_raw', 'thorough', '5 scores'),
                ('dispatch_elbow_n5_norm', 'thorough', '5 scores'), ('dispatch_cliff_n5_norm', 'thorough', '5 scores'),
                ('dispatch_combined_n5_raw', 'thorough', '5 scores'),
                ('dispatch_relative_n2_raw', 'thorough', '2 scores, every finite ratio'),
                ('dispatch_relative_n3_raw', 'thorough', '3 scores, every finite ratio'),
            ]] +
            [H(ADP, 'normalize_range_n1', 'quick', 'bounded', '1 score, every finite value'),
             H(ADP, 'normalize_table_n2', 'quick', 'bounded', '2 scores from the 12-value table'),
             H(ADP, 'normalize_table_n3', 'quick', 'bounded', '3 scores from the 12-value table (the smallest length at which a wrong maximum shows: with 2 scores the range collapses to 0)')]
        ),
        'assumptions': [A_TOOLS, A_TRACE, 'scores and parameters are finite and not NaN (the quantifier of C37: "NaN-free extremes")',
                        'alloc::fmt::format is stubbed to an empty String in the helper harnesses (the reason text plays no role)',
                        'A-NORM: in dispatcher harnesses with normalisation on, normalize_scores is replaced by an assumed contract (same length, finite values)'],
        'not_covered': ['normalize_scores for fully symbolic scores with n >= 2 (f64 division: no answer within the caps)', 'lists longer than 5 (bounded)'],
        'search': 'adaptive',
    },
    'C35': {
        'title': 'Snippet slices are valid, ordered, bounded ranges',
        'level': 'model_checking',
        'level_text': 'prev_char_boundary and next_char_boundary: UNBOUNDED Verus proof on the functions extracted verbatim from src/lex.rs (result <= len, on a char boundary, nearest boundary at/below resp. at/above the index; termination). All five helpers (prev/next_char_boundary, sentence_start_before, sentence_end_after, advance_boundary) carry Kani function contracts (requires/ensures injected on the real functions) discharged on the real functions over EVERY well-formed UTF-8 text of exactly L <= 4 bytes and every usize argument (proof_for_contract for the two loop-only helpers; plain assume-pre/assert-post harnesses over the same predicate functions for the three char_indices-based ones, where proof_for_contract exhausts memory). compute_snippet_slices is verified MODULARLY against those contracts (stub_verified): every slice is non-empty, inside the text, on char boundaries, strictly increasing and non-overlapping, at most max_snippets, slicing never panics, no arithmetic overflow - for every (usize,usize) occurrence value, every window, every max; content: every well-formed text of L <= 4 bytes x k <= 3 occurrences, plus one concrete 24-byte and one 64-byte ASCII text with 2 fully symbolic occurrences so that two separate slices are reachable (BOUNDED; the 3-occurrence long-text instances exceed the memory cap and are not registered).',
        'level_note': 'Bounded by text length (<= 4 bytes, which includes every 1-4 byte scalar and mixes) and occurrence count (<= 3). The helpers sentence_start_before / sentence_end_after / advance_boundary iterate with char_indices, which Verus rejects, so their contracts are bounded.',
        'technique': 'Kani function contracts (proof_for_contract + stub_verified, modular) on the real functions; Verus loop invariants for the two char-boundary helpers',
        'design_ref': 'DESIGN.md section 3 (C35)',
        'verus': ['lex'],
        # the k = 2 / k = 3 instances need up to ~25 GB each: fewer parallel jobs and a higher cap in the thorough tier
        'jobs': {'thorough': 3}, 'mem_kb': {'thorough': 30 * 1024 * 1024},
        'kani': (
            [H(LEX, '%s_l%d' % (nm, l), 'quick', 'bounded', 'every well-formed UTF-8 text of %d bytes, every usize argument' % l, playback=(nm not in ('prev_boundary_contract', 'next_boundary_contract')))
             for l in (1, 2, 3, 4) for nm in ('prev_boundary_contract', 'next_boundary_contract', 'sentence_start_contract', 'sentence_end_contract', 'advance_contract')] +
            [H(LEX, '%s_l0' % nm, 'thorough', 'bounded', 'empty text (proof_for_contract form)', playback=False) for nm in ('sentence_start_contract', 'sentence_end_contract', 'advance_contract')] +
            [H(LEX, n, t, 'bounded', b, playback=False) for n, t, b in [
                ('snippet_slices_l0_k1', 'quick', 'empty text, 1 occurrence'), ('snippet_slices_l1_k0', 'quick', '1 byte, 0 occurrences'),
                ('snippet_slices_l1_k1', 'quick', '1 byte, 1 occurrence'), ('snippet_slices_l2_k1', 'quick', '2 bytes, 1 occurrence'),
                ('snippet_slices_l3_k1', 'quick', '3 bytes, 1 occurrence'),
                ('snippet_slices_ascii24_k2', 'quick', 'one concrete 24-byte ASCII text, 2 symbolic occurrences (two separate slices reachable)'),
                ('snippet_slices_l2_k2', 'thorough', '2 bytes, 2 occurrences'),
                ('snippet_slices_l3_k2', 'thorough', '3 bytes, 2 occurrences'), ('snippet_slices_l4_k2', 'thorough', '4 bytes, 2 occurrences'),
                ('snippet_slices_ascii64_k2', 'thorough', 'one concrete 64-byte ASCII text, 2 symbolic occurrences')]]
        ),
        'assumptions': [A_TOOLS, A_TRACE, 'A-STR: str::is_char_boundary(0) and (len) hold and it is false beyond len (std documentation; axioms in the Verus unit, executed bit-precisely under Kani)',
                        'compute_snippet_slices sees its helpers only through their contracts (stub_verified): a helper change is caught by the helper\'s own proof_for_contract'],
        'not_covered': ['texts longer than 4 bytes with fully symbolic content', 'three or more occurrences on a text long enough to hold three separate slices (snippet_slices_ascii64_k3*: CBMC exceeds 18 GB / does not bound the result loop)'],
        'search': 'lex',
    },

    'C22': {
        'title': 'No panic or hang on arbitrary file bytes',
        'level': 'model_checking',
        'level_text': 'DECODER LAYER ONLY.  Proved without bound (Verus on functions extracted verbatim; overflow, index bounds and termination are proof obligations): find_last_valid_footer on every byte string; locate_footer_window (src/memvid/lifecycle.rs, the window-doubling scan used by open / open_read_only / verify) on every byte string, checked against find_last_valid_footer\'s contract; read_toc (src/memvid/lifecycle.rs, the header-directed TOC read of open / doctor) on every file image and every header over the File model: no underflow in `len - footer_offset` / `buf.len() - FOOTER_SIZE`, no out-of-range slice, and a returned TOC is the decoding of exactly the bytes between footer_offset and the trailing footer whose length, hash and prefix guard were checked.  verify_toc_prefix (src/memvid/lifecycle.rs, the guard in front of the bincode TOC decoder) on every image of every length (Verus tocprefix unit: total, saturating products, and it accepts EXACTLY the images whose version / segment / frame counters are within the limits and whose minimum payload fits; the function-local closure read_u64 is replaced by a stand-in with an assumed little-endian specification - declared rewrite - and is itself executed by the bounded Kani harnesses toc_prefix_len*).  Proved complete by loop-free Kani harnesses over the full input domain: HeaderCodec::decode on all 4096-byte images, CommitFooter::decode on all 56-byte images and on every wrong length, SketchTrackHeader::from_bytes / SketchEntrySmall::from_bytes on all images.  EmbeddedWal::scan_records on every region image over the File model (Verus walscan unit: no overflow, no out-of-range index, terminates); read_track on every file image, offset and declared length (Verus timeindex unit: no arithmetic overflow, terminates; the allocation-size panic class is covered by the Kani harnesses below); read_sketch_track on every file image, offset and declared length (Verus sketchread unit: no arithmetic overflow in the length validation - this obligation found the `entry_count * entry_size` overflow repaired in fix 172834d - the entry loop terminates, the file is not modified). BOUNDED (Kani): read_track on every image of 12 / 28 bytes with every declared length (entry count and length fields fully symbolic); verify_toc_prefix (the guard in front of the TOC decoder) on every image of 0 / 8 / 23 / 24 / 120 bytes: never panics and accepts exactly the images whose version and counts are within the limits and whose minimum payload fits; Kani checks every panic, arithmetic overflow, slice index, unwrap and allocation-size failure on the explored paths.',
        'level_note': 'This claim detects regressions in the byte decoders and in the footer window scan; it does NOT cover the layers above them: TOC decode under catch_unwind, index loading, tantivy, recover_toc / doctor / verify logic (1 600 + 1 700 lines of Memvid code) are outside both tools (DESIGN.md section 4, reason W).  read_sketch_track is covered for totality by the sketchread Verus unit (the HashMap-backed track and the entry decoders enter as opaque external functions); its round-trip behaviour is not (see C39).',
        'technique': 'Verus totality contracts (bounds, overflow, decreases) on seven extracted functions + Kani full-domain / bounded decoder harnesses',
        'design_ref': 'DESIGN.md section 3 (C22)',
        'verus': ['footer', 'lifecycle', 'readtoc', 'tocprefix', 'walscan', 'timeindex', 'sketchread'],
        'kani': [
            H(HDR, 'header_decode_implies_encode'), H(FTR, 'footer_decode_implies_encode'), H(FTR, 'footer_decode_rejects_wrong_length'),
            H(SKT, 'sketch_header_rejects_bad_magic'), H(SKT, 'sketch_small_bytes_roundtrip'),
            H(TIX, 'time_track_rejects_n0', 'quick', 'bounded', 'all 12-byte images, any declared length'),
            H(TIX, 'time_track_rejects_n1', 'thorough', 'bounded', 'all 28-byte images, any declared length'),
            H('memvid::lifecycle', 'toc_prefix_len0', 'quick', 'bounded', 'empty image'), H('memvid::lifecycle', 'toc_prefix_len8', 'quick', 'bounded', 'all 8-byte images'),
            H('memvid::lifecycle', 'toc_prefix_len23', 'quick', 'bounded', 'all 23-byte images'), H('memvid::lifecycle', 'toc_prefix_len24', 'quick', 'bounded', 'all 24-byte images'),
            H('memvid::lifecycle', 'toc_prefix_len120', 'quick', 'bounded', 'all 120-byte images'),
            # the callers of the WAL scan, reached from open / open_read_only on hostile headers and regions: the same
            # harnesses as in C05 - Kani checks every overflow, index, unwrap and allocation-size failure on the
            # paths explored (sequences, checkpoint and the records_after argument are symbolic)
            H(WAL, 'wal_records_after_n0_head0', 'quick', 'bounded', '0 scanned records', playback=False),
            H(WAL, 'wal_records_after_n1_head49', 'quick', 'bounded', '1 scanned record', playback=False),
            H(WAL, 'wal_records_after_n2_tail', 'quick', 'bounded', '2 scanned records, head in the short tail', playback=False),
            H(WAL, 'wal_open_rejects_zero_size', 'quick', 'complete', '', playback=False),
            H(WAL, 'wal_open_ro_n1_head49', 'quick', 'bounded', '1 scanned record, read-only', playback=False),
            H(WAL, 'wal_open_rw_n2_head', 'quick', 'bounded', '2 scanned records, writable', playback=False),
        ],
        # A-INPLACE (as in C05): allocator-model artefacts of std's in-place collect inside records_after
        'ignore_checks': {('io::wal::verif_kani::' + h): [r'__rust_dealloc', r'unchecked_mul', r'in_place_collect']
                          for h in ('wal_records_after_n0_head0', 'wal_records_after_n1_head49', 'wal_records_after_n2_tail')},
        'assumptions': [A_MEMRCHR, A_HASH, A_LE, A_TRACE, A_ARITH, A_TOOLS, A_KANI_STUBS,
                        'locate_footer_window is checked against the CONTRACT of find_last_valid_footer (proved in the footer unit), not its body',
                        A_FILE, 'A-ARCH: 64-bit target (usize is 8 bytes) in the readtoc unit', 'A-SCANSTUB: records_after / open are run against the contract of scan_records (a stub returning any result the contract allows for 0, 1 or 2 records); A-INPLACE: allocator-model artefacts of std in-place collect are excluded for the records_after harnesses', 'A-CLOSURE(read_u64): in the tocprefix unit the function-local closure of verify_toc_prefix (bytes.get(range) -> try_into -> u64::from_le_bytes) is replaced by read_u64_at with the assumed specification: Ok exactly when the range lies inside the image and is 8 bytes long, value = little-endian decode of those bytes (A-LE); the closure itself runs in the bounded Kani harnesses toc_prefix_len*', 'A-TOC: Toc::decode is a function of the bytes (external_body; serde/bincode is not verified)'],
        'not_covered': ['Toc::decode / verify_checksum, recover_toc, scan_range_for_toc, index loading, tantivy, doctor, verify: everything above the byte decoders',
                        'what read_sketch_track returns (HashMap-backed track: only totality is proved)', 'hangs other than in the Verus-proved loops'],
        'search': {'footer|lifecycle': 'footer'},
    },
}
