"""./check selftest [name ...] [--tier quick|thorough] [--seeded]

Sensitivity test of the machinery: every entry of mutants/mutants.json (a textual replacement that must
match exactly once) and every seeded/<id>/patch.diff is applied to a scratch copy of /repo (never to
/repo itself); the property's check is run against that copy and must report a VIOLATION (exit 1), on
one of the obligations the entry names when it names any.  A surviving mutant is printed as MISSED.
Nothing here decides a property; evidence files are not written.
"""
import json
import os
import shutil
import subprocess
import sys
import time

VERIF = os.path.dirname(os.path.dirname(os.path.abspath(__file__)))
WORKROOT = os.environ.get('VERIF_WORK', '/var/tmp/memvid-verif-work')


def _scratch(repo, tag):
    d = os.path.join(WORKROOT, 'mutant-' + tag)
    if os.path.exists(d):
        shutil.rmtree(d)
    os.makedirs(d)
    subprocess.run(['rsync', '-a', '--exclude', '/target', '--exclude', '/.git', repo.rstrip('/') + '/', d + '/'], check=True)
    return d


def load_mutants():
    out = []
    p = os.path.join(VERIF, 'mutants', 'mutants.json')
    if os.path.exists(p):
        for m in json.load(open(p)):
            m['kind'] = 'mutant'
            out.append(m)
    sd = os.path.join(VERIF, 'seeded')
    if os.path.isdir(sd):
        for name in sorted(os.listdir(sd)):
            meta = os.path.join(sd, name, 'meta.json')
            patch = os.path.join(sd, name, 'patch.diff')
            if os.path.exists(meta) and os.path.exists(patch):
                mj = json.load(open(meta))
                out.append({'name': 'seeded/' + name, 'property': mj['property'], 'patch': patch, 'kind': 'seeded',
                            'expect': mj.get('expect_obligations', []), 'expect_detected': mj.get('expect_detected', True),
                            'tier': mj.get('tier', 'quick')})
    return out


def apply(m, d):
    if m.get('patch'):
        r = subprocess.run(['git', 'apply', '--unsafe-paths', '--directory', d, m['patch']], capture_output=True, text=True, cwd='/')
        if r.returncode != 0:
            r = subprocess.run(['patch', '-p1', '-d', d, '-i', m['patch']], capture_output=True, text=True)
        if r.returncode != 0:
            raise RuntimeError('patch does not apply: ' + r.stderr[-300:] + r.stdout[-300:])
        return
    for e in m['edits']:
        p = os.path.join(d, e['file'])
        s = open(p).read()
        if s.count(e['old']) != 1:
            raise RuntimeError('mutant anchor %r matches %d times in %s' % (e['old'][:60], s.count(e['old']), e['file']))
        open(p, 'w').write(s.replace(e['old'], e['new']))


def main(argv):
    import importlib.machinery
    import importlib.util
    loader = importlib.machinery.SourceFileLoader('verif_check', os.path.join(VERIF, 'check'))
    spec = importlib.util.spec_from_loader('verif_check', loader)
    chk = importlib.util.module_from_spec(spec)
    loader.exec_module(chk)
    tier_override = None
    names = []
    it = iter(argv)
    for a in it:
        if a == '--tier':
            tier_override = next(it)
        else:
            names.append(a)
    repo = os.environ.get('VERIF_REPO', '/repo')
    muts = load_mutants()
    if names:
        muts = [m for m in muts if any(n == m['name'] or n == m['property'] or m['name'].startswith(n) for n in names)]
    bad = 0
    rows = []
    for m in muts:
        t0 = time.time()
        tag = m['name'].replace('/', '_')
        d = _scratch(repo, tag)
        try:
            try:
                apply(m, d)
            except RuntimeError as e:
                rows.append((m['name'], m['property'], 'STALE', str(e)[:200]))
                bad += 1
                print('%-44s %-4s %-28s %s' % rows[-1], flush=True)
                continue
            tier = tier_override or m.get('tier', 'quick')
            rc, ev, obs = chk.decide(m['property'], tier, repo=d, write_evidence=False, quiet=True, tag='mut-' + tag, search=False)
            refuted = [o['name'] for o in obs if o['status'] == 'refuted']
            want = m.get('expect') or []
            hit = (rc == 1) and (not want or any(w in refuted for w in want))
            exp_det = m.get('expect_detected', True)
            if hit:
                verdict = 'DETECTED' if exp_det else 'DETECTED(unexpected)'
            elif rc == 1:
                verdict = 'DETECTED(other-obligation)'
            elif rc == 2:
                verdict = 'UNDECIDED'
                bad += 1 if exp_det else 0
            else:
                verdict = 'MISSED' if exp_det else 'missed(as recorded)'
                bad += 1 if exp_det else 0
            und = (ev['coverage'].get('undecided') or [])
            rows.append((m['name'], m['property'], verdict, '%s rc=%d %.0fs %s' % (tier, rc, time.time() - t0, ', '.join(refuted[:4]) or '; '.join(und)[:200])))
        finally:
            shutil.rmtree(d, ignore_errors=True)
            # work copies of this entry (Kani overlay crate, generated Verus text, result files)
            for pre in ('kani-mut-' + tag, 'verus-mut-' + tag):
                shutil.rmtree(os.path.join(WORKROOT, pre), ignore_errors=True)
            for ext in ('.json', '.log'):
                try:
                    os.remove(os.path.join(WORKROOT, 'kani-mut-' + tag + ext))
                except OSError:
                    pass
        print('%-44s %-4s %-28s %s' % rows[-1], flush=True)
    print('selftest: %d entries, %d not as expected' % (len(rows), bad))
    return 1 if bad else 0
