"""Build the Kani work crate: a verbatim copy of /repo's working tree plus an add-only overlay.

Overlay (nothing in /repo is touched; no existing line of the copy is edited or removed):
  1. `#[cfg(kani)] #[path = "/verif/kani/proofs/<m>.rs"] mod verif_kani;` appended to each target file;
  2. `#[cfg_attr(kani, kani::requires/ensures/...)]` lines inserted directly above the fn whose
     signature line matches kani/inject.json (exact text after stripping; a miss = anchor lost);
  3. Cargo.toml: `[patch.crates-io] tracing = { path = /verif/kani/shims/tracing }` appended,
     `[workspace]`-independence kept; `.cargo/config.toml` with `[net] offline = true`.
"""
import json
import os
import re
import shutil
import subprocess

VERIF = os.path.dirname(os.path.dirname(os.path.abspath(__file__)))


class OverlayError(Exception):
    pass


def build(repo, work, modules=None):
    """modules: dict rel_source_path -> proofs file name (under kani/proofs)."""
    cfg = json.load(open(os.path.join(VERIF, 'kani', 'inject.json')))
    modules = modules or cfg['modules']
    if os.path.exists(work):
        shutil.rmtree(work)
    os.makedirs(work)
    r = subprocess.run(['rsync', '-a', '--exclude', '/target', '--exclude', '/.git', repo.rstrip('/') + '/', work + '/'],
                       capture_output=True, text=True)
    if r.returncode != 0:
        raise OverlayError('rsync failed: ' + r.stderr)
    applied = {'modules': [], 'contracts': []}
    # 2. contracts first (line based, above the signature)
    for c in cfg.get('contracts', []):
        p = os.path.join(work, c['file'])
        if not os.path.exists(p):
            raise OverlayError('anchor lost: %s missing' % c['file'])
        lines = open(p).read().split('\n')
        want = c['signature'].strip()
        hits = [i for i, l in enumerate(lines) if l.strip().startswith(want)]
        if len(hits) != 1:
            raise OverlayError('anchor lost: signature %r matches %d lines in %s' % (want, len(hits), c['file']))
        i = hits[0]
        # go above attributes / doc comments directly attached? No: insert directly above the fn line,
        # below existing attributes (attribute order does not matter for kani's).
        ind = re.match(r'\s*', lines[i]).group(0)
        add = [ind + '#[cfg_attr(kani, %s)]' % a for a in c['attrs']]
        lines[i:i] = add
        open(p, 'w').write('\n'.join(lines))
        applied['contracts'].append({'file': c['file'], 'fn': want, 'attrs': c['attrs']})
    # 1. harness modules
    for rel, proofs in modules.items():
        p = os.path.join(work, rel)
        if not os.path.exists(p):
            raise OverlayError('anchor lost: %s missing' % rel)
        pf = os.path.join(VERIF, 'kani', 'proofs', proofs)
        with open(p, 'a') as f:
            f.write('\n#[cfg(kani)]\n#[path = "%s"]\nmod verif_kani;\n' % pf)
        applied['modules'].append({'file': rel, 'proofs': pf})
    # crate-level feature gates needed by kani loop contracts / stmt attrs (cfg(kani) only)
    librs = os.path.join(work, 'src', 'lib.rs')
    # 3. Cargo.toml patch
    ct = os.path.join(work, 'Cargo.toml')
    s = open(ct).read()
    if '[patch.crates-io]' in s:
        raise OverlayError('unsupported: Cargo.toml already has [patch.crates-io]')
    s += '\n[patch.crates-io]\ntracing = { path = "%s" }\ntracing-attributes = { path = "%s" }\n' % (
        os.path.join(VERIF, 'kani', 'shims', 'tracing'), os.path.join(VERIF, 'kani', 'shims', 'tracing-attributes'))
    open(ct, 'w').write(s)
    os.makedirs(os.path.join(work, '.cargo'), exist_ok=True)
    open(os.path.join(work, '.cargo', 'config.toml'), 'w').write('[net]\noffline = true\n')
    return applied
