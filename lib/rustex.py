"""Mechanical extraction of Rust functions for the Verus units.

Nothing here understands Rust beyond lexing (strings, chars, comments, braces,
parens).  The extractor cuts function items verbatim out of a source file and
inserts contract text only at *structural slots* (after the signature, after a
loop header by loop ordinal, at function entry, at loop-body entry, before the
tail expression / each `return`).  See DESIGN.md section 2.1 for the exact list
of what is dropped (E1..E6).
"""
import hashlib
import re


class ExtractError(Exception):
    """Anchor lost / unsupported shape: the check is undecided (exit 2)."""


def _skip_string(s, i):
    # s[i] == '"'
    i += 1
    n = len(s)
    while i < n:
        c = s[i]
        if c == '\\':
            i += 2
            continue
        if c == '"':
            return i + 1
        i += 1
    raise ExtractError("unterminated string literal")


def _skip_raw_string(s, i):
    # s[i] == 'r' and next is # or "
    j = i + 1
    hashes = 0
    while j < len(s) and s[j] == '#':
        hashes += 1
        j += 1
    if j >= len(s) or s[j] != '"':
        return None
    end = s.find('"' + '#' * hashes, j + 1)
    if end < 0:
        raise ExtractError("unterminated raw string")
    return end + 1 + hashes


def lex_spans(s):
    """Yield (kind, start, end) for comments/strings/chars; everything else is code."""
    i, n = 0, len(s)
    while i < n:
        c = s[i]
        if c == '/' and i + 1 < n and s[i + 1] == '/':
            j = s.find('\n', i)
            j = n if j < 0 else j
            yield ('comment', i, j)
            i = j
        elif c == '/' and i + 1 < n and s[i + 1] == '*':
            depth, j = 1, i + 2
            while j < n and depth:
                if s.startswith('/*', j):
                    depth += 1
                    j += 2
                elif s.startswith('*/', j):
                    depth -= 1
                    j += 2
                else:
                    j += 1
            yield ('comment', i, j)
            i = j
        elif c == '"':
            j = _skip_string(s, i)
            yield ('string', i, j)
            i = j
        elif c == 'b' and i + 1 < n and s[i + 1] == '"' and not (i > 0 and (s[i - 1].isalnum() or s[i - 1] == '_')):
            j = _skip_string(s, i + 1)
            yield ('string', i, j)
            i = j
        elif c == 'r' and i + 1 < n and s[i + 1] in '#"' and not (i > 0 and (s[i - 1].isalnum() or s[i - 1] == '_')):
            j = _skip_raw_string(s, i)
            if j is None:
                i += 1
            else:
                yield ('string', i, j)
                i = j
        elif c == "'":
            # char literal or lifetime
            if i + 2 < n and s[i + 1] == '\\':
                j = s.find("'", i + 2)
                # '\'' case
                if s[i + 2] == "'":
                    j = s.find("'", i + 3)
                yield ('char', i, j + 1)
                i = j + 1
            elif i + 2 < n and s[i + 2] == "'":
                yield ('char', i, i + 3)
                i = i + 3
            else:
                # multi-byte char literal like 'é' is still one code point in python str
                i += 1
        else:
            i += 1


def code_mask(s):
    """Return a bytearray m with m[i]=1 when s[i] is code (not comment/string/char)."""
    m = bytearray(b'\x01') * len(s)
    for _k, a, b in lex_spans(s):
        for j in range(a, b):
            m[j] = 0
    return m


def match_close(s, mask, i, open_c='{', close_c='}'):
    """s[i] == open_c (code).  Return index of the matching close."""
    depth = 0
    n = len(s)
    j = i
    while j < n:
        if mask[j]:
            c = s[j]
            if c == open_c:
                depth += 1
            elif c == close_c:
                depth -= 1
                if depth == 0:
                    return j
        j += 1
    raise ExtractError("unbalanced %s%s" % (open_c, close_c))


class FnItem:
    def __init__(self, name, header, body, start, end):
        self.name = name
        self.header = header      # text from (attributes/vis) 'fn' up to but excluding '{'
        self.body = body          # text inside the outer braces (exclusive)
        self.start = start
        self.end = end


def find_fn(src, name, nth=0):
    """Locate the nth `fn <name>` item in src (code positions only)."""
    mask = code_mask(src)
    pat = re.compile(r'\bfn\s+' + re.escape(name) + r'\b')
    hits = [m for m in pat.finditer(src) if mask[m.start()]]
    if len(hits) <= nth:
        raise ExtractError("anchor lost: fn %s (occurrence %d) not found" % (name, nth))
    m = hits[nth]
    # walk back over visibility / qualifiers on the same item
    line_start = src.rfind('\n', 0, m.start()) + 1
    prefix = src[line_start:m.start()]
    if not re.fullmatch(r'\s*(pub(\([a-z:_ ]+\))?\s+)?(const\s+)?(unsafe\s+)?', prefix):
        raise ExtractError("anchor lost: unexpected text before fn %s: %r" % (name, prefix))
    start = line_start
    # find the body-opening brace: first code '{' at paren/bracket/angle depth 0 after the name
    j = m.end()
    depth_p = 0
    n = len(src)
    while j < n:
        if mask[j]:
            c = src[j]
            if c in '([':
                depth_p += 1
            elif c in ')]':
                depth_p -= 1
            elif c == '{' and depth_p == 0:
                break
            elif c == ';' and depth_p == 0:
                raise ExtractError("fn %s has no body" % name)
        j += 1
    close = match_close(src, mask, j)
    header = src[start:j].rstrip()
    body = src[j + 1:close]
    return FnItem(name, header, body, start, close + 1)


# ---------------------------------------------------------------- drops (E1..E3)

_TRACE_STMT = re.compile(r'tracing::(trace|debug|info|warn|error)!\s*\(')


def drop_tracing(body):
    """E1: remove `tracing::<level>!( ... );` statements.  E2: remove
    `if tracing::enabled!(..) { .. }` blocks.  Returns (new_body, dropped_list)."""
    dropped = []
    # E2 first (blocks may contain E1 statements)
    while True:
        mask = code_mask(body)
        m = None
        for mm in re.finditer(r'if\s+tracing::enabled!\s*\(', body):
            if mask[mm.start()]:
                m = mm
                break
        if not m:
            break
        p_open = body.index('(', m.start())
        p_close = match_close(body, mask, p_open, '(', ')')
        b_open = body.index('{', p_close)
        if body[p_close + 1:b_open].strip():
            raise ExtractError("unsupported tracing::enabled! shape")
        b_close = match_close(body, mask, b_open)
        if re.match(r'\s*else\b', body[b_close + 1:]):
            raise ExtractError("tracing::enabled! block with else")
        a = body.rfind('\n', 0, m.start()) + 1
        if body[a:m.start()].strip():
            raise ExtractError("tracing::enabled! not at statement start")
        e = b_close + 1
        if e < len(body) and body[e] == '\n':
            e += 1
        dropped.append(('E2', body[a:e]))
        body = body[:a] + body[e:]
    while True:
        mask = code_mask(body)
        m = None
        for mm in _TRACE_STMT.finditer(body):
            if mask[mm.start()]:
                m = mm
                break
        if not m:
            break
        a = body.rfind('\n', 0, m.start()) + 1
        if body[a:m.start()].strip():
            raise ExtractError("tracing macro not at statement start: %r" % body[a:m.end()])
        p_open = m.end() - 1
        p_close = match_close(body, mask, p_open, '(', ')')
        rest = body[p_close + 1:]
        mm2 = re.match(r'\s*;', rest)
        if not mm2:
            raise ExtractError("tracing macro used as expression")
        e = p_close + 1 + mm2.end()
        if e < len(body) and body[e] == '\n':
            e += 1
        dropped.append(('E1', body[a:e]))
        body = body[:a] + body[e:]
    return body, dropped


_ATTR = re.compile(r'^[ \t]*#\[(must_use|inline|allow\([^\]]*\)|inline\([a-z]+\))\][ \t]*\n', re.M)


def drop_attrs(text):
    """E3: attributes that do not affect semantics."""
    dropped = [('E3', m.group(0)) for m in _ATTR.finditer(text)]
    return _ATTR.sub('', text), dropped


# ---------------------------------------------------------------- loops and slots

_LOOP_KW = re.compile(r'\b(while|for|loop)\b')


def loop_headers(body):
    """Return [(kw_pos, brace_open, brace_close)] for every loop in body, in source order."""
    mask = code_mask(body)
    out = []
    for m in _LOOP_KW.finditer(body):
        if not mask[m.start()]:
            continue
        # exclude `for<'a>` HRTB and identifiers like .for
        if m.start() > 0 and body[m.start() - 1] in '._':
            continue
        j = m.end()
        depth = 0
        n = len(body)
        found = None
        while j < n:
            if mask[j]:
                c = body[j]
                if c in '([':
                    depth += 1
                elif c in ')]':
                    depth -= 1
                elif c == '{' and depth == 0:
                    found = j
                    break
                elif c == ';' and depth == 0:
                    break
            j += 1
        if found is None:
            continue
        out.append((m.start(), found, match_close(body, mask, found)))
    return out


def tail_start(body):
    """Index in body where the tail expression (or last statement) starts."""
    mask = code_mask(body)
    depth = 0
    last = 0
    i, n = 0, len(body)
    while i < n:
        if mask[i]:
            c = body[i]
            if c in '({[':
                depth += 1
            elif c in ')}]':
                depth -= 1
                if depth == 0 and c == '}':
                    # block statement end unless followed by else / method call / ? / operator
                    rest = body[i + 1:]
                    if not re.match(r'\s*(else\b|\.|\?|;|,|\))', rest):
                        if rest.strip():
                            last = i + 1
            elif c == ';' and depth == 0:
                if body[i + 1:].strip():
                    last = i + 1
        i += 1
    # skip whitespace/comments to the first code char of the tail
    j = last
    while j < n and (body[j].isspace() or not mask[j]):
        j += 1
    # start of that line's indentation
    ls = body.rfind('\n', 0, j) + 1
    return ls if not body[ls:j].strip() else j


def return_positions(body):
    mask = code_mask(body)
    return [m.start() for m in re.finditer(r'\breturn\b', body) if mask[m.start()]]


def sha256(text):
    return hashlib.sha256(text.encode()).hexdigest()


def named_return(header, rname='r'):
    """E6: `-> T` becomes `-> (r: T)` (Verus needs a name for the result)."""
    mask = code_mask(header)
    # last top-level '->' after the parameter list
    depth = 0
    pos = None
    for i, c in enumerate(header):
        if not mask[i]:
            continue
        if c in '([':
            depth += 1
        elif c in ')]':
            depth -= 1
        elif c == '-' and header[i:i + 2] == '->' and depth == 0:
            pos = i
    if pos is None:
        return header
    ret = header[pos + 2:].strip()
    where = ''
    mw = re.search(r'\bwhere\b', ret)
    if mw:
        where = ' ' + ret[mw.start():]
        ret = ret[:mw.start()].strip()
    return header[:pos] + '-> (%s: %s)%s' % (rname, ret, where)
