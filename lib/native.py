"""Native replay / search drivers.  They never decide a property: they only try to exhibit, on the
real code, a concrete failing input for an obligation the verifier has already refuted."""
import json
import os
import re
import shutil
import subprocess
import sys

VERIF = os.path.dirname(os.path.dirname(os.path.abspath(__file__)))
WORKROOT = os.environ.get('VERIF_WORK', '/var/tmp/memvid-verif-work')
NATIVE_TARGET = os.environ.get('VERIF_NATIVE_TARGET', '/var/tmp/memvid-verif-native-target')

DRIVERS = {
    'wal': ('wal_search.rs', 'verif_wal_search', 'VERIF_WAL_HISTORY', 'VERIF_WAL_BUDGET_S'),
    'footer': ('footer_search.rs', 'verif_footer_search', 'VERIF_FOOTER_CASE', 'VERIF_FOOTER_BUDGET_S'),
    'lex': ('lex_search.rs', 'verif_lex_search', 'VERIF_LEX_CASE', 'VERIF_LEX_BUDGET_S', 'src/lex.rs'),
    'adaptive': ('adaptive_search.rs', 'verif_adaptive_search', 'VERIF_ADAPTIVE_CASE', 'VERIF_ADAPTIVE_BUDGET_S'),
    'sketch': ('sketch_search.rs', 'verif_sketch_search', 'VERIF_SKETCH_CASE', 'VERIF_SKETCH_BUDGET_S'),
    'codec': ('codec_search.rs', 'verif_codec_search', 'VERIF_CODEC_CASE', 'VERIF_CODEC_BUDGET_S'),
    'vec': ('vec_search.rs', 'verif_vec_search', 'VERIF_VEC_CASE', 'VERIF_VEC_BUDGET_S', 'src/vec.rs'),
}


_CACHE = {}


def _scratch(repo, tag):
    """Scratch copy of the working tree for a native driver.  The directory is KEPT between runs (fixed path per
    driver, so cargo's path-dependent fingerprints stay valid) and synchronised by CONTENT: rsync --checksum
    without -t rewrites exactly the files whose bytes differ and gives them the current mtime.  Never copy with
    preserved mtimes here: cargo decides freshness by mtime, and a file that is put back with an OLDER mtime
    (a reverted change) would be taken as unchanged and the previous - possibly mutated - build would be run."""
    d = os.path.join(WORKROOT, 'native-' + tag)
    os.makedirs(d, exist_ok=True)
    subprocess.run(['rsync', '-rlpgoD', '--checksum', '--delete', '--exclude', '/target', '--exclude', '/.git',
                    repo.rstrip('/') + '/', d + '/'], check=True)
    return d


def _run_driver(repo, which, case=None, budget=50, timeout=1500, extra_env=None):
    fname, test, case_env, budget_env = DRIVERS[which][:4]
    inline_into = DRIVERS[which][4] if len(DRIVERS[which]) > 4 else None
    src = os.path.join(VERIF, 'replay', fname)
    if not os.path.exists(src):
        return None, 'no native driver %s' % fname
    d = _scratch(repo, which)
    try:
        if inline_into:
            # crate-private function: the driver is appended to the scratch copy's source file as a
            # #[cfg(test)] child module (add-only; /repo itself is never touched)
            with open(os.path.join(d, inline_into), 'a') as f:
                f.write('\n#[cfg(test)]\n#[path = "%s"]\nmod verif_native;\n' % src)
            cargo_args = ['cargo', 'test', '--offline', '--lib', test, '--', '--nocapture', '--test-threads', '1']
        else:
            shutil.copy(src, os.path.join(d, 'tests', test + '.rs'))
            cargo_args = ['cargo', 'test', '--offline', '--test', test, '--', '--nocapture', '--test-threads', '1']
        env = dict(os.environ)
        env['CARGO_TARGET_DIR'] = NATIVE_TARGET
        env['CARGO_NET_OFFLINE'] = 'true'
        env[budget_env] = str(budget)
        if case is not None:
            env[case_env] = case
        env.update(extra_env or {})
        p = subprocess.run(cargo_args,
                           cwd=d, env=env, capture_output=True, text=True, timeout=timeout)
        return p.stdout + '\n' + p.stderr[-3000:], None
    except subprocess.TimeoutExpired:
        return None, 'native driver timed out'
    finally:
        pass  # the scratch copy is kept: see _scratch


def run_obligation(repo, spec, tier):
    """A BOUNDED NATIVE STAND-IN (labelled as such, never counted as proved): the driver enumerates a stated,
    finite set of inputs completely on the real code compiled natively from `repo` and compares with an
    executable copy of the specification.  Used only where neither verifier reaches the function
    (EmbeddedWal::scan_records).  Returns an obligation dict."""
    import time
    t0 = time.time()
    env = {k: (v[tier] if isinstance(v, dict) else v) for k, v in spec.get('env', {}).items()}
    ob = {'name': spec['name'], 'backend': 'native-enumeration(cargo test)', 'kind': 'bounded', 'role': 'stand-in',
          'bound': spec['bound'][tier] if isinstance(spec['bound'], dict) else spec['bound'], 'status': 'undecided',
          'seconds': 0.0, 'detail': '', 'playback': False}
    out, err = _run_driver(repo, spec['driver'], None, 0, timeout=spec.get('timeout', 1500), extra_env=env)
    ob['seconds'] = time.time() - t0
    if out is None:
        ob['detail'] = 'native driver did not run: %s' % err
        return ob
    m = re.search(r'VERIF-REPLAY-FAIL (\w+)=(\S+) :: ([^\n]*)', out)
    if m:
        ob['status'] = 'refuted'
        ob['detail'] = 'case %s: %s' % (m.group(2)[:300], m.group(3)[:400])
        ob['native_failing_input'] = {'driver': spec['driver'], 'case': m.group(2), 'observed': m.group(3)}
        return ob
    m = re.search(r'VERIF-SEARCH-NONE ([^\n]*enumeration complete[^\n]*)', out)
    if m:
        ob['status'] = 'discharged'
        ob['detail'] = m.group(1)
        mm = re.search(r'tried=(\d+)', m.group(1))
        ob['checks'] = int(mm.group(1)) if mm else 0
        return ob
    em = re.search(r'^(error(\[E\d+\])?: [^\n]*)', out, re.M)
    ob['detail'] = 'native driver gave no verdict: ' + (em.group(1) if em else out[-300:])
    return ob


def find_failing_input(prop, ob, reg, repo, kout, verus_outs, extra=None):
    """Return a dict describing a concrete failing input on the real code, or None.  `extra` (a dict) receives
    material worth keeping in the replay file even when nothing was reproduced (the verifier's counterexample)."""
    extra = extra if extra is not None else {}
    if ob.get('native_failing_input'):
        fi = dict(ob['native_failing_input'])
        fi['how_to_replay'] = './check %s --replay <this file>' % prop
        return fi
    if ob.get('backend', '').startswith('kani') and ob.get('playback', True) and ob.get('harness_id'):
        import playback
        tag = re.sub(r'[^A-Za-z0-9]+', '_', ob['harness_id'])[-60:]
        cex = playback.extract_counterexample(repo, ob['harness_id'], tag)
        if cex:
            extra['verifier_counterexample'] = cex
            ok, text = playback.run_native(repo, ob['harness_id'], cex, tag)
            extra['native_playback'] = text
            if ok:
                return {'driver': 'kani-playback', 'harness_id': ob['harness_id'], 'test_name': cex['test_name'],
                        'test_code': cex['test_code'], 'check': cex['check'], 'observed': text,
                        'how_to_replay': './check %s --replay <this file>' % prop}
    which = reg.get('search')
    if isinstance(which, dict):
        # per-obligation-prefix choice
        sel = None
        for pat, w in which.items():
            if re.search(pat, ob['name']):
                sel = w
                break
        which = sel
    if not which:
        return None
    if which in _CACHE:
        return _CACHE[which]
    _CACHE[which] = None
    out, err = _run_driver(repo, which, None, int(os.environ.get('VERIF_SEARCH_BUDGET_S', '50')))
    if out is None:
        return None
    m = re.search(r'VERIF-REPLAY-FAIL (\w+)=(\S+) :: ([^\n]*)', out)
    if not m:
        return None
    _CACHE[which] = {'driver': which, 'case': m.group(2), 'observed': m.group(3),
                     'how_to_replay': './check %s --replay <this file>' % prop}
    return _CACHE[which]


def replay(prop, path, repo):
    rep = json.load(open(path))
    fi = rep.get('failing_input')
    print('obligation: %s' % rep.get('obligation'))
    print('verifier output: %s' % (rep.get('verifier_output') or '')[:1500])
    if not fi:
        print('no concrete failing input was found for this obligation (no-failing-input-found); the verifier output above is the evidence')
        return 0
    if fi.get('driver') == 'kani-playback':
        import playback
        tag = re.sub(r'[^A-Za-z0-9]+', '_', fi['harness_id'])[-60:]
        ok, text = playback.run_native(repo, fi['harness_id'], fi, 'replay-' + tag)
        print(fi['test_code'])
        print(text)
        if ok is None:
            return 2
        print('VERIF-REPLAY-FAIL' if ok else 'VERIF-REPLAY-PASS')
        return 1 if ok else 0
    out, err = _run_driver(repo, fi['driver'], fi['case'], 5)
    if out is None:
        print('replay could not run: %s' % err)
        return 2
    m = re.search(r'VERIF-REPLAY-(FAIL|PASS)[^\n]*', out)
    print(m.group(0) if m else out[-1500:])
    return 1 if (m and m.group(1) == 'FAIL') else 0
