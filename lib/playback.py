"""Replay of a Kani refutation against the real code.

1. The refuted harness is re-run with `--concrete-playback=print`; Kani prints a `#[test]` that feeds the
   counterexample values to the harness through `kani::concrete_playback_run`.
2. That test is appended to a scratch copy of the proofs module and executed NATIVELY with
   `cargo kani playback` on an overlay copy of the repository: the real functions of /repo run on the
   counterexample and the harness assertion panics (or not).
Only meaningful for harnesses without stubs (natively, kani::stub / stub_verified / contract attributes
have no effect); the registry marks the others `playback: False` and they fall back to the native search
drivers.  Nothing here decides a property.
"""
import os
import re
import shutil
import subprocess

import kani_run

VERIF = os.path.dirname(os.path.dirname(os.path.abspath(__file__)))
PLAYBACK_TIMEOUT = int(os.environ.get('VERIF_PLAYBACK_TIMEOUT', '1500'))


def extract_counterexample(repo, harness_id, tag, timeout=1200):
    """Return dict(test_name, test_code, check) for the first failing *assertion* of the harness, or None."""
    work, _ = kani_run.prepare(repo, 'cex-' + tag)
    try:
        cmd = ['cargo', 'kani', '-Z', 'function-contracts', '-Z', 'stubbing', '-Z', 'unstable-options',
               '-Z', 'concrete-playback', '--concrete-playback=print', '--output-format=terse', '--exact',
               '--harness', harness_id]
        sh = 'ulimit -v %d; exec %s' % (kani_run.MEM_KB, ' '.join("'%s'" % c for c in cmd))
        try:
            p = subprocess.run(['bash', '-c', sh], cwd=work, env=kani_run._env(), capture_output=True, text=True, timeout=timeout)
        except subprocess.TimeoutExpired:
            return None
        out = p.stdout
        blocks = re.findall(r'```\n(.*?)```', out, re.S)
        best = None
        for b in blocks:
            m = re.search(r'/// Check for `(\w+)`: "+([^\n]*?)"+\n', b)
            kind = m.group(1) if m else ''
            if kind == 'cover':
                continue
            nm = re.search(r'fn (kani_concrete_playback_\w+)\(', b)
            if not nm:
                continue
            best = {'test_name': nm.group(1), 'test_code': b, 'check': (m.group(2) if m else ''), 'check_kind': kind}
            break
        return best
    finally:
        shutil.rmtree(work, ignore_errors=True)


def run_native(repo, harness_id, cex, tag):
    """Execute the playback test natively on an overlay copy of `repo`.  Returns (reproduced: bool|None, text)."""
    mod = harness_id.split('::verif_kani::')[0]
    rel = 'src/' + mod.replace('::', '/') + '.rs'
    import json
    cfg = json.load(open(os.path.join(VERIF, 'kani', 'inject.json')))
    pf = cfg['modules'].get(rel)
    if pf is None:
        return None, 'no proofs module for ' + rel
    work, _ = kani_run.prepare(repo, 'pb-' + tag)
    try:
        scratch_pf = os.path.join(work, 'verif_playback_' + pf)
        shutil.copy(os.path.join(VERIF, 'kani', 'proofs', pf), scratch_pf)
        with open(scratch_pf, 'a') as f:
            f.write('\n' + cex['test_code'] + '\n')
        sp = os.path.join(work, rel)
        s = open(sp).read()
        s = s.replace('#[path = "%s"]' % os.path.join(VERIF, 'kani', 'proofs', pf), '#[path = "%s"]' % scratch_pf)
        open(sp, 'w').write(s)
        cmd = ['cargo', 'kani', 'playback', '-Z', 'concrete-playback', '-Z', 'function-contracts', '-Z', 'stubbing',
               '--lib', '--', cex['test_name']]
        env = kani_run._env()
        env['RUST_BACKTRACE'] = '0'
        try:
            p = subprocess.run(cmd, cwd=work, env=env, capture_output=True, text=True, timeout=PLAYBACK_TIMEOUT)
        except subprocess.TimeoutExpired:
            return None, 'native playback timed out after %ds' % PLAYBACK_TIMEOUT
        txt = p.stdout + '\n' + p.stderr
        m = re.search(r'test result: (\w+)\. (\d+) passed; (\d+) failed', txt)
        if not m:
            em = re.search(r'^(error(\[E\d+\])?: [^\n]*)', txt, re.M)
            return None, 'native playback did not run: ' + (em.group(1) if em else txt[-400:])
        if int(m.group(3)) > 0:
            pm = re.search(r"panicked at ([^\n]*)\n([^\n]*)", txt)
            return True, 'native run of the real code on the counterexample panicked at %s: %s' % (
                (pm.group(1) if pm else '?'), (pm.group(2) if pm else '?'))
        if int(m.group(2)) > 0:
            return False, 'native run of the real code on the counterexample passed (not reproduced natively)'
        return None, 'playback test not found in the native build'
    finally:
        shutil.rmtree(work, ignore_errors=True)
