"""Generate a single-file Verus unit from a `.unit` description plus /repo sources.

Unit file grammar (line oriented; `@@` starts a directive, text up to the next
directive is that directive's payload):

  @@ unit <name>
  @@ source <path relative to the repository root>
  @@ text                      -- payload copied verbatim into the output (prelude, specs, lemmas)
  @@ open <text>               -- e.g. `impl EmbeddedWal {`   (copied verbatim)
  @@ close                     -- emits `}`
  @@ fn <name> [nth=<k>] [vis=keep|pub|priv]
       followed by sub-directives, each with a payload:
  @@ spec                      -- requires/ensures placed between signature and body
  @@ entry                     -- proof text at function entry (S1)
  @@ ghost_entry               -- `let ghost x0 = x;` snapshots at function entry (S1'; ghost code, erased)
  @@ loop <k>                  -- invariant/ensures/decreases after the k-th loop header
  @@ loop_body <k>             -- proof text at entry of the k-th loop body (S2)
  @@ loop_end <k>              -- proof text immediately before the closing brace of the k-th loop body (S2')
  @@ before_tail               -- proof text immediately before the tail expression (S3)
  @@ before_return <k>         -- proof text immediately before the k-th `return` (S3)
  @@ rewrite_header <from> => <to>   -- E5-style declared rewrite of the *signature only*
  @@ assumed <name> [nth=<k>]  -- the real signature with an assumed contract: emitted as
                                  #[verifier::external_body]; payload = spec text
  @@ const <NAME>              -- copy `const NAME: T = expr;` verbatim from the source
"""
import json
import os
import re

from rustex import (ExtractError, find_fn, drop_tracing, drop_attrs, loop_headers,
                    tail_start, return_positions, named_return, sha256, code_mask)


class Unit:
    def __init__(self, path):
        self.path = path
        self.name = None
        self.source = None
        self.items = []   # list of dicts
        self._parse(open(path).read())

    def _parse(self, text):
        cur = None
        cur_fn = None
        buf = []

        def flush():
            nonlocal buf
            if cur is not None:
                cur['payload'] = ''.join(buf).rstrip('\n') + ('\n' if buf else '')
            buf = []

        for line in text.splitlines(keepends=True):
            if line.startswith('@@#'):
                continue
            if line.startswith('@@ '):
                flush()
                parts = line[3:].strip().split(None, 1)
                d = parts[0]
                arg = parts[1] if len(parts) > 1 else ''
                if d == 'unit':
                    self.name = arg
                    cur = None
                elif d == 'source':
                    self.source = arg
                    cur = None
                elif d in ('text', 'open', 'close', 'const', 'const_bytes', 'const_eval', 'struct', 'include'):
                    cur = {'kind': d, 'arg': arg}
                    self.items.append(cur)
                    cur_fn = None
                elif d in ('fn', 'assumed'):
                    toks = arg.split()
                    opts = dict(t.split('=', 1) for t in toks[1:])
                    cur = {'kind': d, 'name': toks[0], 'nth': int(opts.get('nth', 0)),
                           'opts': opts, 'subs': []}
                    self.items.append(cur)
                    cur_fn = cur
                    if d == 'assumed':
                        cur = {'kind': 'spec', 'arg': ''}
                        cur_fn['subs'].append(cur)
                elif d in ('spec', 'entry', 'ghost_entry', 'ghost_loop_body', 'loop', 'loop_body', 'loop_end', 'before_tail', 'before_return',
                           'rewrite_header', 'rewrite_body', 'rewrite_body_re'):
                    if cur_fn is None:
                        raise ExtractError("%s: directive %s outside fn" % (self.path, d))
                    cur = {'kind': d, 'arg': arg}
                    cur_fn['subs'].append(cur)
                else:
                    raise ExtractError("%s: unknown directive %s" % (self.path, d))
            else:
                buf.append(line)
        flush()


def _indent_of(body, pos):
    ls = body.rfind('\n', 0, pos) + 1
    m = re.match(r'[ \t]*', body[ls:])
    return m.group(0)


def _subseq_lines(clean, original):
    """Every non-blank line of `clean` appears, in order, in `original`."""
    orig = [l.strip() for l in original.splitlines() if l.strip()]
    k = 0
    for l in clean.splitlines():
        t = l.strip()
        if not t:
            continue
        while k < len(orig) and orig[k] != t:
            k += 1
        if k == len(orig):
            return False
        k += 1
    return True


def gen_fn(src, item, canary=False):
    """Return (text, info) for one extracted function."""
    f = find_fn(src, item['name'], item['nth'])
    header, dropped_h = drop_attrs(f.header + '\n')
    header = header.rstrip('\n')
    # doc comments above the fn are not part of header (find_fn starts at the fn line)
    body0 = f.body
    body, dropped = drop_tracing(body0)
    body, dropped_a = drop_attrs(body)
    dropped += dropped_a + dropped_h
    if not _subseq_lines(body, body0):
        raise ExtractError("internal: cleaned body of %s is not a line-subsequence of the source" % item['name'])
    clean_sha = sha256(body)
    subs = {}
    for s in item['subs']:
        subs.setdefault(s['kind'], []).append(s)
    hdr = named_return(header)
    for s in subs.get('rewrite_header', []):
        a, b = [x.strip() for x in s['arg'].split('=>')]
        if a not in hdr:
            raise ExtractError("anchor lost: header rewrite %r not applicable to fn %s" % (a, item['name']))
        hdr = hdr.replace(a, b)
        dropped.append(('E5', '%s => %s' % (a, b)))
    rewrites = []
    for s in subs.get('rewrite_body', []):
        a, b = [x.strip() for x in s['arg'].split('=>')]
        if body.count(a) != 1:
            raise ExtractError("anchor lost: body rewrite %r matches %d times in fn %s" % (a, body.count(a), item['name']))
        rewrites.append((a, b))
        dropped.append(('E7', '%s => %s' % (a, b)))
    re_rewrites = []
    for s_ in subs.get('rewrite_body_re', []):
        # E7r: declared rewrite of ONE expression, given as a regular expression (whitespace-insensitive where
        # the pattern says \\s*); it must match exactly once, otherwise the anchor is lost (exit 2)
        a, b = [x.strip() for x in s_['arg'].split(' => ')]
        n = len(re.findall(a, body, re.S))
        if n != 1:
            raise ExtractError("anchor lost: body rewrite /%s/ matches %d times in fn %s" % (a[:60], n, item['name']))
        re_rewrites.append((a, b))
        dropped.append(('E7r', '/%s/ => %s' % (a, b)))
    vis = item['opts'].get('vis', 'keep')
    if vis == 'pub' and not re.match(r'\s*pub\b', hdr):
        hdr = re.sub(r'^(\s*)', r'\1pub ', hdr, count=1)

    # collect insertions as (position_in_body, text); apply from the back
    ins = []
    loops = loop_headers(body)
    for s in subs.get('loop', []):
        k = int(s['arg'])
        if k >= len(loops):
            raise ExtractError("anchor lost: fn %s has %d loops, contract wants loop %d" % (item['name'], len(loops), k))
        kw, bo, bc = loops[k]
        ind = _indent_of(body, kw)
        txt = '\n' + ''.join(ind + '    ' + l.strip() + '\n' for l in s['payload'].splitlines() if l.strip()) + ind
        ins.append((bo, txt, 'pre'))
    for s in subs.get('loop_body', []):
        k = int(s['arg'])
        if k >= len(loops):
            raise ExtractError("anchor lost: fn %s has %d loops, proof wants loop %d" % (item['name'], len(loops), k))
        kw, bo, bc = loops[k]
        ind = _indent_of(body, kw) + '    '
        ins.append((bo + 1, '\n' + ind + 'proof {\n' + s['payload'] + ind + '}', 'post'))
    for s in subs.get('ghost_loop_body', []):
        # S2'': ghost snapshots at entry of the k-th loop body (`let ghost x0 = x;` lines only)
        k = int(s['arg'])
        if k >= len(loops):
            raise ExtractError("anchor lost: fn %s has %d loops, ghost snapshot wants loop %d" % (item['name'], len(loops), k))
        for l in s['payload'].splitlines():
            if l.strip() and not re.match(r'\s*let ghost \w+(: [\w<>]+)? = [^;]+;\s*$', l):
                raise ExtractError('ghost_loop_body accepts only `let ghost <name> = <expr>;` lines, got %r' % l)
        kw, bo, bc = loops[k]
        ins.append((bo + 1, '\n' + s['payload'].rstrip('\n'), 'post'))
    for s in subs.get('loop_end', []):
        # S2': proof text immediately before the closing brace of the k-th loop body
        k = int(s['arg'])
        if k >= len(loops):
            raise ExtractError("anchor lost: fn %s has %d loops, proof wants loop %d" % (item['name'], len(loops), k))
        kw, bo, bc = loops[k]
        ind = _indent_of(body, kw) + '    '
        ins.append((bc, ind + 'proof {\n' + s['payload'] + ind + '}\n' + _indent_of(body, kw), 'pre'))
    for s in subs.get('entry', []):
        ins.append((0, '\n        proof {\n' + s['payload'] + '        }', 'post'))
    for s in subs.get('ghost_entry', []):
        # S1': ghost snapshots of parameters at function entry (`let ghost x0 = x;` lines only)
        for l in s['payload'].splitlines():
            if l.strip() and not re.match(r'\s*let ghost \w+(: [\w<>]+)? = [^;]+;\s*$', l):
                raise ExtractError('ghost_entry accepts only `let ghost <name> = <expr>;` lines, got %r' % l)
        ins.append((0, '\n' + s['payload'].rstrip('\n'), 'post'))
    tail_txt = ''.join(s['payload'] for s in subs.get('before_tail', []))
    if canary:
        tail_txt += '            assert(false); // VERIF-CANARY\n'
    if tail_txt:
        t = tail_start(body)
        ind = _indent_of(body, t if body[t:t + 1] != '\n' else t + 1)
        ins.append((t, ind + 'proof {\n' + tail_txt + ind + '}\n', 'pre'))
    rets = return_positions(body)
    for s in subs.get('before_return', []):
        k = int(s['arg'])
        if k >= len(rets):
            raise ExtractError("anchor lost: fn %s has %d returns, proof wants return %d" % (item['name'], len(rets), k))
        p = rets[k]
        ls = body.rfind('\n', 0, p) + 1
        if body[ls:p].strip():
            raise ExtractError("return %d of fn %s is not at statement start" % (k, item['name']))
        ind = body[ls:p]
        ins.append((ls, ind + 'proof {\n' + s['payload'] + ind + '}\n', 'pre'))
    out = body
    for pos, txt, _ in sorted(ins, key=lambda x: -x[0]):
        out = out[:pos] + txt + out[pos:]
    for a, b in rewrites:
        out = out.replace(a, b)
    for a, b in re_rewrites:
        out, n_done = re.subn(a, lambda m_: m_.expand(b) if '\\g<' in b else b, out, count=1, flags=re.S)
        if n_done != 1:
            raise ExtractError("anchor lost: body rewrite /%s/ no longer matches after the contract text was inserted in fn %s" % (a[:60], item['name']))
    spec = ''.join(s['payload'] for s in subs.get('spec', []))
    text = hdr + '\n' + spec + '    {' + out + '}\n'
    info = {'fn': item['name'], 'source_sha256': sha256(f.header + '{' + body0 + '}'),
            'clean_body_sha256': clean_sha, 'dropped': [d[0] + ': ' + ' '.join(d[1].split())[:160] for d in dropped],
            'loops': len(loops), 'line': src.count('\n', 0, f.start) + 1}
    return text, info


def gen_assumed(src, item):
    f = find_fn(src, item['name'], item['nth'])
    header, _ = drop_attrs(f.header + '\n')
    hdr = named_return(header.rstrip('\n'))
    for s in item['subs']:
        if s['kind'] == 'rewrite_header':
            a, b = [x.strip() for x in s['arg'].split('=>')]
            if a not in hdr:
                raise ExtractError("anchor lost: header rewrite %r not applicable to fn %s" % (a, item['name']))
            hdr = hdr.replace(a, b)
    spec = ''.join(s['payload'] for s in item['subs'] if s['kind'] == 'spec')
    text = '    #[verifier::external_body]\n' + hdr + '\n' + spec + '    { unimplemented!() }\n'
    return text, {'fn': item['name'], 'assumed': True, 'source_sha256': sha256(f.header + '{' + f.body + '}'),
                  'line': src.count('\n', 0, f.start) + 1}


def gen_const(src, name):
    mask = code_mask(src)
    for m in re.finditer(r'^[ \t]*(pub(\([a-z]+\))?\s+)?const\s+' + re.escape(name) + r'\s*:[^;]*;', src, re.M):
        if mask[m.start() + len(m.group(0)) - 1]:
            return m.group(0).strip() + '\n'
    raise ExtractError("anchor lost: const %s" % name)


def _const_decl(src, name):
    mask = code_mask(src)
    for m in re.finditer(r'^[ \t]*(pub(\([a-z]+\))?\s+)?const\s+' + re.escape(name) + r'\s*:\s*((?:\[[^\]]*\]|[^=;\[])+?)\s*=\s*([^;]*);', src, re.M):
        return m.group(3).strip(), m.group(4).strip()
    raise ExtractError("anchor lost: const %s" % name)


def gen_const_bytes(src, name, env):
    """E5: `const N: &[u8; k] = b"...";` is declared as the array it points to."""
    ty, val = _const_decl(src, name)
    mt = re.fullmatch(r'&\s*\[u8;\s*(\d+)\]', ty)
    mv = re.fullmatch(r'b"((?:[^"\\]|\\.)*)"', val)
    if not mt or not mv:
        raise ExtractError("unsupported shape for byte-string const %s: %s = %s" % (name, ty, val))
    data = bytes(mv.group(1), 'utf-8').decode('unicode_escape').encode('latin-1')
    if len(data) != int(mt.group(1)):
        raise ExtractError("const %s: length mismatch" % name)
    env[name + '.len()'] = str(len(data))
    for i, b in enumerate(data):
        env['%s[%d]' % (name, i)] = str(b)
    return 'pub const %s: [u8; %d] = [%s]; // E5: was %s = %s\n' % (name, len(data), ', '.join(str(b) for b in data), ty, val)


def gen_const_eval(src, name, env):
    """E5: a const whose initialiser is integer arithmetic over literals and earlier consts is
    declared with the evaluated literal (Verus cannot call `.len()` in a const initialiser)."""
    ty, val = _const_decl(src, name)
    expr = val
    for k, v in sorted(env.items(), key=lambda kv: -len(kv[0])):
        expr = expr.replace(k, v)
    expr = re.sub(r'\bas\s+(usize|u64|u32)\b', '', expr)
    if not re.fullmatch(r'[0-9xa-fA-F_+\-*/() \t\n]+', expr):
        raise ExtractError("const %s: cannot evaluate %r" % (name, val))
    v = eval(expr.replace('_', ''))
    env[name] = str(v)
    return 'pub const %s: %s = %d; // E5: was %s\n' % (name, ty, v, ' '.join(val.split()))


def gen_struct(repo, default_src, arg):
    """Copy `struct NAME { .. }` verbatim (E4: derives, serde attributes and doc comments dropped;
    visibility of the struct itself forced to `pub`)."""
    toks = arg.split()
    name = toks[0]
    opts = dict(t.split('=', 1) for t in toks[1:])
    src = open(os.path.join(repo, opts['file'])).read() if 'file' in opts else default_src
    mask = code_mask(src)
    for m in re.finditer(r'\bstruct\s+' + re.escape(name) + r'\b[^{;]*\{', src):
        if not mask[m.start()]:
            continue
        from rustex import match_close
        bo = m.end() - 1
        bc = match_close(src, mask, bo)
        inner = src[bo + 1:bc]
        lines = []
        for l in inner.splitlines():
            t = l.strip()
            if not t or t.startswith('//') or t.startswith('#['):
                continue
            lines.append('    ' + t)
        head = src[m.start():bo].strip()
        # derive=Clone,Copy: re-attach the derives the code relies on (checked against the source's own derive line)
        der = ''
        if 'derive' in opts:
            want = [d_.strip() for d_ in opts['derive'].split(',')]
            pre = src[max(0, m.start() - 300):m.start()]
            dm = re.findall(r'#\[derive\(([^)]*)\)\]', pre)
            have = set(x.strip() for x in ','.join(dm).split(','))
            missing = [w for w in want if w not in have]
            if missing:
                raise ExtractError('struct %s does not derive %s in the source' % (name, missing))
            der = '#[derive(%s)]\n' % ', '.join(want)
        return der + 'pub ' + head + ' {\n' + '\n'.join(lines) + '\n}\n'
    raise ExtractError("anchor lost: struct %s" % name)


def generate(unit_path, repo, canary=False):
    u = Unit(unit_path)
    src_path = os.path.join(repo, u.source)
    if not os.path.exists(src_path):
        raise ExtractError("anchor lost: %s missing" % src_path)
    src = open(src_path).read()
    out = ['// GENERATED by /verif/lib/verusgen.py from %s and %s -- do not edit\n' % (u.source, os.path.basename(unit_path)),
           'use vstd::prelude::*;\nverus! {\n']
    infos = []
    env = {}

    def subst(t):
        for k_, v_ in env.items():
            t = t.replace('{{' + k_ + '}}', v_)
        if '{{' in t:
            raise ExtractError("unresolved placeholder in unit text: %s" % t[t.index('{{'):t.index('{{') + 40])
        return t

    for it in u.items:
        k = it['kind']
        if k == 'text':
            out.append(subst(it['payload']))
        elif k == 'include':
            # shared specification text (same directory as the unit), so two units cannot drift apart
            out.append(subst(open(os.path.join(os.path.dirname(os.path.abspath(unit_path)), it['arg'].strip())).read()))
        elif k == 'struct':
            out.append(gen_struct(repo, src, it['arg']))
        elif k in ('const_bytes', 'const_eval'):
            toks = it['arg'].split()
            copts = dict(t.split('=', 1) for t in toks[1:])
            csrc = open(os.path.join(repo, copts['file'])).read() if 'file' in copts else src
            out.append((gen_const_bytes if k == 'const_bytes' else gen_const_eval)(csrc, toks[0], env))
        elif k == 'open':
            out.append(it['arg'] + '\n')
        elif k == 'close':
            out.append('}\n')
        elif k == 'const':
            out.append(gen_const(src, it['arg']))
        elif k == 'fn':
            t, info = gen_fn(src, it, canary=canary)
            info['gen_line_start'] = ''.join(out).count('\n') + 1
            out.append(subst(t) + '\n')
            info['gen_line_end'] = ''.join(out).count('\n')
            infos.append(info)
        elif k == 'assumed':
            # `file=<path>`: the signature is taken from another source file (a callee whose contract is
            # proved in its own unit; this unit checks the caller against that contract)
            asrc = src
            if 'file' in it['opts']:
                fp = os.path.join(repo, it['opts']['file'])
                if not os.path.exists(fp):
                    raise ExtractError("anchor lost: %s missing" % fp)
                asrc = open(fp).read()
            t, info = gen_assumed(asrc, it)
            if 'file' in it['opts']:
                info['from_file'] = it['opts']['file']
            out.append(subst(t) + '\n')
            infos.append(info)
    out.append('\n} // verus!\nfn main() {}\n')
    return ''.join(out), {'unit': u.name, 'source': u.source, 'functions': infos}


if __name__ == '__main__':
    import sys
    text, info = generate(sys.argv[1], sys.argv[2], canary='--canary' in sys.argv)
    sys.stdout.write(text)
    sys.stderr.write(json.dumps(info, indent=1) + '\n')
